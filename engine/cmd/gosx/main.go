// gosx: symbolic executor for go.sh harnesses (see /verif/DESIGN.md §2).
//
// usage: gosx [flags] Harness...
// The SSA form of /repo (current working tree) and of the harness module is
// rebuilt on every invocation; nothing is cached.
package main

import (
	"encoding/json"
	"flag"
	"fmt"
	"os"
	"sort"
	"strings"
	"time"

	"gosx/interp"

	"golang.org/x/tools/go/packages"
	"golang.org/x/tools/go/ssa"
	"golang.org/x/tools/go/ssa/ssautil"
)

type result struct {
	Harness string        `json:"harness"`
	Stats   *interp.Stats `json:"stats"`
	LoadS   float64       `json:"load_s"`
	Error   string        `json:"error,omitempty"`
}

func main() {
	dir := flag.String("dir", "/verif/harness", "harness module directory")
	pkg := flag.String("pkg", "./h", "harness package pattern")
	workers := flag.Int("workers", 0, "parallel workers (0 = NumCPU)")
	maxPaths := flag.Int("max-paths", 0, "stop after this many paths (0 = unlimited); hitting the cap is reported")
	budget := flag.Int64("budget", 5_000_000, "SSA instruction budget per path")
	panicnil := flag.Int("panicnil", 1, "modelled GODEBUG panicnil value")
	timeout := flag.Duration("timeout", 0, "wall-clock limit for the exploration of one harness")
	out := flag.String("o", "", "write JSON results to this file")
	tags := flag.String("tags", "verif", "build tags")
	solverCmd := flag.String("solver", "z3 -in", "solver command")
	solverLog := flag.String("solver-log", "", "log worker 0's solver dialogue to this file")
	samples := flag.Int("samples", 8, "passing-path samples to keep")
	perKey := flag.Int("per-key", 3, "violations kept per distinct key")
	verbose := flag.Bool("v", false, "verbose")
	selftest := flag.Int("selftest-regex", 0, "validate the regexp model against the real regexp package on regex bodies of up to N atoms and exit")
	flag.Parse()
	interp.SolverCmd = strings.Fields(*solverCmd)
	if *selftest > 0 {
		os.Exit(selfTestRegex(*selftest))
	}

	t0 := time.Now()
	cfg := &packages.Config{Mode: packages.LoadAllSyntax, Dir: *dir, BuildFlags: []string{"-tags=" + *tags},
		Env: append(os.Environ(), "GOFLAGS=-mod=mod", "GOPROXY=off", "GOSUMDB=off", "GOTOOLCHAIN=local")}
	pkgs, err := packages.Load(cfg, *pkg)
	if err != nil {
		fmt.Fprintln(os.Stderr, "load:", err)
		os.Exit(2)
	}
	if packages.PrintErrors(pkgs) > 0 {
		os.Exit(2)
	}
	prog, spkgs := ssautil.AllPackages(pkgs, ssa.InstantiateGenerics)
	prog.Build()
	loadS := time.Since(t0).Seconds()
	if *verbose {
		fmt.Fprintf(os.Stderr, "loaded+built SSA in %.1fs\n", loadS)
	}
	var results []result
	exit := 0
	for _, h := range flag.Args() {
		c := interp.Config{Harness: h, Workers: *workers, MaxPaths: *maxPaths, InstrBudget: *budget, PanicNil: *panicnil,
			SolverLog: *solverLog, SamplePaths: *samples, MaxPerKey: *perKey, Verbose: *verbose}
		if *timeout > 0 {
			c.Deadline = time.Now().Add(*timeout)
		}
		st, err := interp.Explore(spkgs[0], c)
		r := result{Harness: h, Stats: st, LoadS: loadS}
		if err != nil {
			r.Error = err.Error()
			exit = 2
			fmt.Fprintf(os.Stderr, "%s: %v\n", h, err)
		} else {
			summary(h, st)
		}
		results = append(results, r)
	}
	if *out != "" {
		b, _ := json.MarshalIndent(results, "", " ")
		if err := os.WriteFile(*out, b, 0o644); err != nil {
			fmt.Fprintln(os.Stderr, err)
			os.Exit(2)
		}
	}
	os.Exit(exit)
}

func summary(h string, st *interp.Stats) {
	nv := 0
	for _, n := range st.ViolCount {
		nv += n
	}
	fmt.Printf("%-28s paths=%d vacuous=%d inconclusive=%d branches=%d (repaired %d) choices=%d queries=%d (sat %d unsat %d unknown %d) asserts=%d+%d triv wall=%v solver=%v instrs=%d leftover=%d violations=%d/%d keys capped=%v timedout=%v\n",
		h, st.Paths, st.Vacuous, st.Inconclusive, st.Branches, st.Repaired, st.Choices, st.Queries, st.QSat, st.QUnsat, st.QUnknown,
		st.Asserts, st.AssertsTriv, st.Wall.Round(time.Millisecond), st.SolverTime.Round(time.Millisecond), st.Instrs, st.Leftover, nv, len(st.ViolCount), st.PathCapHit, st.TimedOut)
	var keys []string
	for k := range st.ViolCount {
		keys = append(keys, k)
	}
	sort.Strings(keys)
	for _, k := range keys {
		fmt.Printf("    VIOL x%d %s\n", st.ViolCount[k], k)
		if vs := st.Violations[k]; len(vs) > 0 {
			fmt.Printf("         vector=%v observe=%q\n", vs[0].Vector, vs[0].Observe)
		}
	}
	for m, n := range st.InconMsgs {
		if len(m) > 600 {
			m = m[:600]
		}
		fmt.Printf("    INCONCLUSIVE x%d %s\n", n, m)
	}
	if st.InconExample != "" {
		ex := st.InconExample
		if len(ex) > 3000 {
			ex = ex[:3000]
		}
		fmt.Println("    EXAMPLE:", ex)
	}
	for _, e := range st.SolverErrors {
		fmt.Printf("    SOLVER-ERROR %s\n", e)
	}
}

// selfTestRegex: every regex that pattern.compile can emit for patterns of up
// to 3 symbols over the C12 alphabet (with the four anchorings) against every
// subject of up to 4 symbols over the subject alphabet.
func selfTestRegex(depth int) int {
	alpha := []string{"a", "b", ".", ".*", ".*?", "[ab]", "[^a]", "[a-b]", "\\.", "\\*", "\\[", "-", "\n", "(?s:.)", "(?s:.*)", "(?s:.*?)", "[[:alpha:]]", "é"}
	var bodies []string
	var gen func(prefix string, k int)
	gen = func(prefix string, k int) {
		bodies = append(bodies, prefix)
		if k == 0 {
			return
		}
		for _, a := range alpha {
			gen(prefix+a, k-1)
		}
	}
	gen("", depth)
	var regexes []string
	for _, b := range bodies {
		regexes = append(regexes, "^("+b+")", "("+b+")$", "^("+b+")$", "^("+b+"|a)$")
	}
	sub := []string{"a", "b", "-", ".", "\n", "é", "]"}
	var subjects []string
	var gs func(prefix string, k int)
	gs = func(prefix string, k int) {
		subjects = append(subjects, prefix)
		if k == 0 {
			return
		}
		for _, a := range sub {
			gs(prefix+a, k-1)
		}
	}
	gs("", 3)
	n, bad := interp.SelfTestRegex(regexes, subjects)
	fmt.Printf("regexp model self-test: %d (regex, subject) cases, %d disagreements\n", n, len(bad))
	for i, b := range bad {
		if i < 10 {
			fmt.Println("  ", b)
		}
	}
	if len(bad) > 0 {
		return 2
	}
	return 0
}
