package h

import (
	"sync"

	"verifharness/nd"
)

// Self-tests of the engine's race monitor and scheduler (run by bin/setup:
// Selftest_Race must report a race, Selftest_NoRace* must not).

type shared struct {
	x  int
	mu sync.Mutex
}

func Selftest_Race() {
	nd.RaceMonitor(true)
	s := &shared{}
	done := make(chan struct{})
	go func() {
		s.x = 1 // unsynchronised write
		close(done)
	}()
	_ = s.x // unsynchronised read: races with the write whatever the schedule
	<-done
	nd.RaceMonitor(false)
}

func Selftest_NoRaceChan() {
	nd.RaceMonitor(true)
	s := &shared{}
	done := make(chan struct{})
	go func() {
		s.x = 1
		close(done)
	}()
	<-done
	_ = s.x
	c := make(chan int)
	go func() { s.x = 2; c <- 1 }()
	<-c
	s.x = 3
	nd.RaceMonitor(false)
}

func Selftest_NoRaceMutex() {
	nd.RaceMonitor(true)
	s := &shared{}
	done := make(chan struct{})
	go func() {
		s.mu.Lock()
		s.x++
		s.mu.Unlock()
		close(done)
	}()
	s.mu.Lock()
	s.x++
	s.mu.Unlock()
	<-done
	nd.RaceMonitor(false)
}
