package h

import (
	"errors"
	"fmt"
	"sync/atomic"

	"verifharness/nd"
)

func Tmp1() {
	c := nd.IntRange(0, 5)
	var p atomic.Pointer[myErr]
	p.Store(&myErr{c})
	obs(p.Load().code)
}
func Tmp2() {
	a := nd.IntRange(0, 5)
	e1 := &myErr{a}
	w := fmt.Errorf("wrap: %w", e1)
	var target *myErr
	obs(errors.Is(w, e1), errors.As(w, &target), target.code, errors.Unwrap(w) == e1, w.Error(), errors.Join(e1, nil) != nil)
}
