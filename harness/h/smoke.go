package h

import (
	"io"
	"strconv"

	"github.com/hattya/go.sh/interp"
	"github.com/hattya/go.sh/parser"
	"verifharness/nd"
)

// Scanner is an io.RuneScanner over a rune vector.
type Scanner struct {
	R      []rune
	I      int
	Reads  int
	FailAt int // >= 0: ReadRune fails with ErrInjected once I >= FailAt
	Failed bool
}

type injected struct{}

func (injected) Error() string { return "injected read error" }

var ErrInjected error = injected{}

func NewScanner(r []rune) *Scanner { return &Scanner{R: r, FailAt: -1} }

func (s *Scanner) ReadRune() (rune, int, error) {
	s.Reads++
	if s.FailAt >= 0 && s.I >= s.FailAt {
		s.Failed = true
		return 0, 0, ErrInjected
	}
	if s.I >= len(s.R) {
		return 0, 0, io.EOF
	}
	r := s.R[s.I]
	s.I++
	return r, 1, nil
}

func (s *Scanner) UnreadRune() error {
	if s.I > 0 {
		s.I--
	}
	return nil
}

func Smoke_OptionString() {
	o := interp.Option(nd.Uint())
	_ = o.String()
}

func Smoke_Div() {
	env := interp.NewExecEnv("sh")
	a, b := nd.Int(), nd.Int()
	env.Set("a", strconv.Itoa(a))
	env.Set("b", strconv.Itoa(b))
	n, err := env.Eval("a / b")
	if b == 0 {
		nd.Assert(err != nil, "division by zero must be an error")
		return
	}
	nd.Assume(!(a == -9223372036854775808 && b == -1))
	nd.Assert(err == nil, "unexpected error")
	nd.Assert(n == a/b, "value")
}

func Smoke_Parse2() {
	s := NewScanner([]rune{nd.Rune(), nd.Rune()})
	_, _, _ = parser.ParseCommands(nil, "x", s)
}

func Smoke_Parse3() {
	s := NewScanner([]rune{nd.Rune(), nd.Rune(), nd.Rune()})
	_, _, _ = parser.ParseCommands(nil, "x", s)
}
