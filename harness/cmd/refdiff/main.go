// refdiff compares the reference recogniser with the real parser on the
// repository corpus, the templates and the negative list (development aid and
// setup-time validation of the recogniser).
package main

import (
	"fmt"
	"os"

	"github.com/hattya/go.sh/parser"
	"verifharness/h"
)

func main() {
	var all []string
	all = append(all, h.RepoSources...)
	all = append(all, h.Templates...)
	all = append(all, h.NegativeSources()...)
	bad := 0
	for _, src := range all {
		if h.ContInHeredoc([]rune(src)) {
			continue // line continuations inside words / here-documents are outside the recogniser
		}
		s := h.NewScanner([]rune(src))
		_, _, err := parser.ParseCommands(nil, "x", s)
		v, end := h.RefParse([]rune(src))
		acc := err == nil
		if acc != (v == h.RefComplete) || (acc && end != s.I) {
			bad++
			fmt.Printf("DISAGREE src=%q parser_err=%v consumed=%d ref=%d end=%d\n", src, err, s.I, v, end)
		}
	}
	fmt.Printf("%d sources, %d disagreements\n", len(all), bad)
	if bad > 0 {
		os.Exit(1)
	}
}
