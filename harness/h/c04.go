package h

import (
	"github.com/hattya/go.sh/ast"
	"verifharness/nd"
)

// C04 — every recorded position designates the token it documents.
//
// The check is intrinsic to (source, AST): for each position field the source
// characters at that line:column must spell the token the field stands for.
// The source runes are symbolic, so "the characters there spell `then`" is a
// solver obligation under the path condition, not a comparison on a sample.

type srcMap struct {
	src     []rune
	lines   []int // rune index of the first character of each line (1-based line => lines[line-1])
	cont    bool  // the source contains a line continuation
	heredoc bool  // the source contains "<<": here-document bodies follow later commands of the line
}

func newSrcMap(src []rune) *srcMap {
	m := &srcMap{src: src, lines: []int{0}}
	for i, r := range src {
		if r == '\n' {
			m.lines = append(m.lines, i+1)
			if i > 0 && src[i-1] == '\\' {
				m.cont = true
			}
		}
		if r == '<' && i > 0 && src[i-1] == '<' {
			m.heredoc = true
		}
	}
	return m
}

// index returns the rune index of p, or -1 when p is outside the source
// (one past the last character of a line is inside).
func (m *srcMap) index(p ast.Pos) int {
	if p.Line() < 1 || p.Line() > len(m.lines) || p.Col() < 1 {
		return -1
	}
	start := m.lines[p.Line()-1]
	end := len(m.src)
	if p.Line() < len(m.lines) {
		end = m.lines[p.Line()] // includes the newline
	}
	i := start + p.Col() - 1
	if i > end {
		return -1
	}
	return i
}

type posChecker struct {
	m    *srcMap
	what string
}

func (c *posChecker) fail(msg string) { nd.Fail(msg) }

// spells asserts that the source at p spells text.
func (c *posChecker) spells(p ast.Pos, text string, field string) {
	i := c.m.index(p)
	rs := []rune(text)
	if i < 0 || i+len(rs) > len(c.m.src) {
		c.fail("position of " + field + " is outside the source")
		return
	}
	for k, r := range rs {
		nd.Assert(c.m.src[i+k] == r, "position of "+field+" does not designate its token")
	}
}

func (c *posChecker) inside(n ast.Node, kind string) {
	p, e := n.Pos(), n.End()
	if p.IsZero() && e.IsZero() {
		return // empty node
	}
	if c.m.index(p) < 0 {
		c.fail("Pos() of " + kind + " is outside the source")
	}
	if e.IsZero() {
		c.fail("End() of a non-empty " + kind + " is zero")
		return
	}
	if c.m.index(e) < 0 {
		c.fail("End() of " + kind + " is outside the source")
	}
	if p.After(e) {
		c.fail("Pos() of " + kind + " is after its End()")
	}
}

// within: child lies inside parent.
func (c *posChecker) within(child, parent ast.Node, kind string) {
	cp, ce := child.Pos(), child.End()
	pp, pe := parent.Pos(), parent.End()
	if cp.IsZero() || ce.IsZero() || pp.IsZero() || pe.IsZero() {
		return
	}
	if c.m.heredoc {
		// here-document bodies lie after the command line: only starts nest
		if cp.Before(pp) {
			c.fail("a child node starts before its parent " + kind)
		}
		return
	}
	if cp.Before(pp) || ce.After(pe) {
		c.fail("a child node lies outside its parent " + kind)
	}
}

func (c *posChecker) ordered(a, b ast.Node, kind string) {
	if a.End().IsZero() || b.Pos().IsZero() {
		return
	}
	if c.m.heredoc {
		// a redirection with a here-document ends at its delimiter line, which
		// lies after the rest of the command line: only the starts are ordered
		if b.Pos().Before(a.Pos()) {
			c.fail("sibling nodes of " + kind + " do not start in increasing order")
		}
		return
	}
	if b.Pos().Before(a.End()) {
		c.fail("sibling nodes of " + kind + " are not in increasing order")
	}
}

func (c *posChecker) lit(l *ast.Lit, field string) {
	if l == nil {
		return
	}
	if c.m.cont {
		// text inside line continuations is excluded: only the first
		// character is checked, and only when it is not itself part of a
		// continuation
		i := c.m.index(l.ValuePos)
		rs := []rune(l.Value)
		if i < 0 || i > len(c.m.src) {
			c.fail("position of " + field + " is outside the source")
			return
		}
		if len(rs) > 0 && i < len(c.m.src) && rs[0] != '\\' && c.m.src[i] != '\\' {
			nd.Assert(c.m.src[i] == rs[0], "position of "+field+" does not designate its token")
		}
		return
	}
	c.spells(l.ValuePos, l.Value, field)
}

func (c *posChecker) cmds(cs []ast.Command, parent ast.Node, kind string) {
	for i, x := range cs {
		c.cmd(x)
		if parent != nil {
			c.within(x, parent, kind)
		}
		if i > 0 {
			c.ordered(cs[i-1], x, kind)
		}
	}
}

func (c *posChecker) cmd(x ast.Command) {
	switch x := x.(type) {
	case ast.List:
		c.inside(x, "List")
		for i, ao := range x {
			c.cmd(ao)
			c.within(ao, x, "List")
			if i > 0 {
				c.ordered(x[i-1], ao, "List")
			}
		}
	case *ast.AndOrList:
		c.inside(x, "AndOrList")
		c.cmd(x.Pipeline)
		prev := ast.Node(x.Pipeline)
		for _, ao := range x.List {
			c.spells(ao.OpPos, ao.Op, "AndOr.OpPos")
			c.cmd(ao.Pipeline)
			c.ordered(prev, ao, "AndOrList")
			prev = ao
		}
		if !x.SepPos.IsZero() {
			c.spells(x.SepPos, x.Sep, "AndOrList.SepPos")
		}
	case *ast.Pipeline:
		c.inside(x, "Pipeline")
		if !x.Bang.IsZero() {
			c.spells(x.Bang, "!", "Pipeline.Bang")
		}
		c.cmd(x.Cmd)
		prev := ast.Node(x.Cmd)
		for _, p := range x.List {
			c.spells(p.OpPos, p.Op, "Pipe.OpPos")
			c.cmd(p.Cmd)
			c.ordered(prev, p, "Pipeline")
			prev = p
		}
	case *ast.Cmd:
		c.inside(x, "Cmd")
		c.expr(x.Expr)
		if x.Expr != nil {
			c.within(x.Expr, x, "Cmd")
		}
		for _, r := range x.Redirs {
			c.redir(r)
			c.within(r, x, "Cmd")
		}
	}
}

func (c *posChecker) redir(r *ast.Redir) {
	c.inside(r, "Redir")
	if r.N != nil {
		c.lit(r.N, "Redir.N")
	}
	c.spells(r.OpPos, r.Op, "Redir.OpPos")
	c.word(r.Word)
	c.word(r.Heredoc)
	c.word(r.Delim)
}

func (c *posChecker) expr(x ast.CmdExpr) {
	switch x := x.(type) {
	case *ast.SimpleCmd:
		c.inside(x, "SimpleCmd")
		var prev ast.Node
		for _, a := range x.Assigns {
			c.inside(a, "Assign")
			c.lit(a.Name, "Assign.Name")
			c.spells(a.Name.End(), a.Op, "Assign.Op")
			c.word(a.Value)
			if len(a.Value) > 0 {
				c.within(a.Value, a, "Assign")
			}
			if prev != nil {
				c.ordered(prev, a, "SimpleCmd")
			}
			prev = a
		}
		for _, w := range x.Args {
			c.word(w)
			c.within(w, x, "SimpleCmd")
			if prev != nil {
				c.ordered(prev, w, "SimpleCmd")
			}
			prev = w
		}
	case *ast.Subshell:
		c.inside(x, "Subshell")
		c.spells(x.Lparen, "(", "Subshell.Lparen")
		c.spells(x.Rparen, ")", "Subshell.Rparen")
		c.cmds(x.List, x, "Subshell")
	case *ast.Group:
		c.inside(x, "Group")
		c.spells(x.Lbrace, "{", "Group.Lbrace")
		c.spells(x.Rbrace, "}", "Group.Rbrace")
		c.cmds(x.List, x, "Group")
	case *ast.ArithEval:
		c.inside(x, "ArithEval")
		c.spells(x.Left, "((", "ArithEval.Left")
		c.spells(x.Right, "))", "ArithEval.Right")
		c.word(x.Expr)
	case *ast.ForClause:
		c.inside(x, "ForClause")
		c.spells(x.For, "for", "ForClause.For")
		c.lit(x.Name, "ForClause.Name")
		if !x.In.IsZero() {
			c.spells(x.In, "in", "ForClause.In")
		}
		if !x.Semicolon.IsZero() {
			c.spells(x.Semicolon, ";", "ForClause.Semicolon")
		}
		for _, w := range x.Items {
			c.word(w)
			c.within(w, x, "ForClause")
		}
		c.spells(x.Do, "do", "ForClause.Do")
		c.spells(x.Done, "done", "ForClause.Done")
		c.cmds(x.List, x, "ForClause")
	case *ast.CaseClause:
		c.inside(x, "CaseClause")
		c.spells(x.Case, "case", "CaseClause.Case")
		c.word(x.Word)
		c.spells(x.In, "in", "CaseClause.In")
		c.spells(x.Esac, "esac", "CaseClause.Esac")
		for i, it := range x.Items {
			c.inside(it, "CaseItem")
			c.within(it, x, "CaseClause")
			if i > 0 {
				c.ordered(x.Items[i-1], it, "CaseClause")
			}
			if !it.Lparen.IsZero() {
				c.spells(it.Lparen, "(", "CaseItem.Lparen")
			}
			for _, p := range it.Patterns {
				c.word(p)
			}
			c.spells(it.Rparen, ")", "CaseItem.Rparen")
			if !it.Break.IsZero() {
				c.spells(it.Break, ";;", "CaseItem.Break")
			}
			c.cmds(it.List, it, "CaseItem")
		}
	case *ast.IfClause:
		c.inside(x, "IfClause")
		c.spells(x.If, "if", "IfClause.If")
		c.spells(x.Then, "then", "IfClause.Then")
		c.spells(x.Fi, "fi", "IfClause.Fi")
		c.cmds(x.Cond, x, "IfClause")
		c.cmds(x.List, x, "IfClause")
		for _, e := range x.Else {
			switch e := e.(type) {
			case *ast.ElifClause:
				c.inside(e, "ElifClause")
				c.within(e, x, "IfClause")
				c.spells(e.Elif, "elif", "ElifClause.Elif")
				c.spells(e.Then, "then", "ElifClause.Then")
				c.cmds(e.Cond, e, "ElifClause")
				c.cmds(e.List, e, "ElifClause")
			case *ast.ElseClause:
				c.inside(e, "ElseClause")
				c.within(e, x, "IfClause")
				c.spells(e.Else, "else", "ElseClause.Else")
				c.cmds(e.List, e, "ElseClause")
			}
		}
	case *ast.WhileClause:
		c.inside(x, "WhileClause")
		c.spells(x.While, "while", "WhileClause.While")
		c.spells(x.Do, "do", "WhileClause.Do")
		c.spells(x.Done, "done", "WhileClause.Done")
		c.cmds(x.Cond, x, "WhileClause")
		c.cmds(x.List, x, "WhileClause")
	case *ast.UntilClause:
		c.inside(x, "UntilClause")
		c.spells(x.Until, "until", "UntilClause.Until")
		c.spells(x.Do, "do", "UntilClause.Do")
		c.spells(x.Done, "done", "UntilClause.Done")
		c.cmds(x.Cond, x, "UntilClause")
		c.cmds(x.List, x, "UntilClause")
	case *ast.FuncDef:
		c.inside(x, "FuncDef")
		c.lit(x.Name, "FuncDef.Name")
		c.spells(x.Lparen, "(", "FuncDef.Lparen")
		c.spells(x.Rparen, ")", "FuncDef.Rparen")
		c.cmd(x.Body)
		c.within(x.Body, x, "FuncDef")
	}
}

func (c *posChecker) word(w ast.Word) {
	if len(w) == 0 {
		return
	}
	c.inside(w, "Word")
	for i, p := range w {
		c.part(p)
		c.within(p, w, "Word")
		if i > 0 {
			c.ordered(w[i-1], p, "Word")
		}
	}
}

func (c *posChecker) part(p ast.WordPart) {
	switch p := p.(type) {
	case *ast.Lit:
		c.inside(p, "Lit")
		c.lit(p, "Lit.ValuePos")
	case *ast.Quote:
		c.inside(p, "Quote")
		c.spells(p.TokPos, p.Tok, "Quote.TokPos")
		c.word(p.Value)
		if len(p.Value) > 0 {
			c.within(p.Value, p, "Quote")
		}
	case *ast.ParamExp:
		c.inside(p, "ParamExp")
		if p.Braces {
			c.spells(p.Dollar, "${", "ParamExp.Dollar")
		} else {
			c.spells(p.Dollar, "$", "ParamExp.Dollar")
		}
		c.lit(p.Name, "ParamExp.Name")
		if !p.OpPos.IsZero() {
			c.spells(p.OpPos, p.Op, "ParamExp.OpPos")
		}
		c.word(p.Word)
	case *ast.CmdSubst:
		c.inside(p, "CmdSubst")
		if p.Dollar {
			c.spells(p.Pos(), "$(", "CmdSubst.Left")
			c.spells(p.Right, ")", "CmdSubst.Right")
		} else {
			c.spells(p.Left, "`", "CmdSubst.Left")
			c.spells(p.Right, "`", "CmdSubst.Right")
		}
		c.cmds(p.List, p, "CmdSubst")
	case *ast.ArithExp:
		c.inside(p, "ArithExp")
		c.spells(p.Left, "$((", "ArithExp.Left")
		c.spells(p.Right, "))", "ArithExp.Right")
		c.word(p.Expr)
	}
}

func checkPositions(src []rune, cmds []ast.Command, comments []*ast.Comment) {
	c := &posChecker{m: newSrcMap(src)}
	c.cmds(cmds, nil, "top level")
	for _, cm := range comments {
		c.spells(cm.Hash, "#", "Comment.Hash")
	}
}

func c04(src []rune) {
	cmds, comments, err, _ := parseRunes(nil, src)
	if err != nil {
		nd.Cover("rejected")
		return
	}
	nd.Cover("accepted")
	checkPositions(src, cmds, comments)
	nd.Observe(string(src))
}

func C04_F2() { c04(freeRunes(2, false)) }
func C04_F3() { c04(freeRunes(3, false)) }
func C04_F4() { c04(freeRunes(4, true)) }
func C04_T0() { c04([]rune(Templates[nd.Choice(len(Templates))])) }
func C04_T1() { c04(holeTemplate()) }
