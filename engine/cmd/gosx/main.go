// gosx: symbolic executor for go.sh harnesses (see /verif/DESIGN.md §2).
//
// usage: gosx [flags] Harness...
// The SSA form of /repo (current working tree) and of the harness module is
// rebuilt on every invocation; nothing is cached.
package main

import (
	"encoding/json"
	"flag"
	"fmt"
	"os"
	"sort"
	"strings"
	"time"

	"gosx/interp"

	"golang.org/x/tools/go/packages"
	"golang.org/x/tools/go/ssa"
	"golang.org/x/tools/go/ssa/ssautil"
)

type result struct {
	Harness string        `json:"harness"`
	Stats   *interp.Stats `json:"stats"`
	LoadS   float64       `json:"load_s"`
	Error   string        `json:"error,omitempty"`
}

func main() {
	dir := flag.String("dir", "/verif/harness", "harness module directory")
	pkg := flag.String("pkg", "./h", "harness package pattern")
	workers := flag.Int("workers", 0, "parallel workers (0 = NumCPU)")
	maxPaths := flag.Int("max-paths", 0, "stop after this many paths (0 = unlimited); hitting the cap is reported")
	budget := flag.Int64("budget", 5_000_000, "SSA instruction budget per path")
	panicnil := flag.Int("panicnil", 1, "modelled GODEBUG panicnil value")
	timeout := flag.Duration("timeout", 0, "wall-clock limit for the exploration of one harness")
	out := flag.String("o", "", "write JSON results to this file")
	tags := flag.String("tags", "verif", "build tags")
	solverCmd := flag.String("solver", "z3 -in", "solver command")
	solverLog := flag.String("solver-log", "", "log worker 0's solver dialogue to this file")
	samples := flag.Int("samples", 8, "passing-path samples to keep")
	perKey := flag.Int("per-key", 3, "violations kept per distinct key")
	verbose := flag.Bool("v", false, "verbose")
	flag.Parse()
	interp.SolverCmd = strings.Fields(*solverCmd)

	t0 := time.Now()
	cfg := &packages.Config{Mode: packages.LoadAllSyntax, Dir: *dir, BuildFlags: []string{"-tags=" + *tags},
		Env: append(os.Environ(), "GOFLAGS=-mod=mod", "GOPROXY=off", "GOSUMDB=off", "GOTOOLCHAIN=local")}
	pkgs, err := packages.Load(cfg, *pkg)
	if err != nil {
		fmt.Fprintln(os.Stderr, "load:", err)
		os.Exit(2)
	}
	if packages.PrintErrors(pkgs) > 0 {
		os.Exit(2)
	}
	prog, spkgs := ssautil.AllPackages(pkgs, ssa.InstantiateGenerics)
	prog.Build()
	loadS := time.Since(t0).Seconds()
	if *verbose {
		fmt.Fprintf(os.Stderr, "loaded+built SSA in %.1fs\n", loadS)
	}
	var results []result
	exit := 0
	for _, h := range flag.Args() {
		c := interp.Config{Harness: h, Workers: *workers, MaxPaths: *maxPaths, InstrBudget: *budget, PanicNil: *panicnil,
			SolverLog: *solverLog, SamplePaths: *samples, MaxPerKey: *perKey, Verbose: *verbose}
		if *timeout > 0 {
			c.Deadline = time.Now().Add(*timeout)
		}
		st, err := interp.Explore(spkgs[0], c)
		r := result{Harness: h, Stats: st, LoadS: loadS}
		if err != nil {
			r.Error = err.Error()
			exit = 2
			fmt.Fprintf(os.Stderr, "%s: %v\n", h, err)
		} else {
			summary(h, st)
		}
		results = append(results, r)
	}
	if *out != "" {
		b, _ := json.MarshalIndent(results, "", " ")
		if err := os.WriteFile(*out, b, 0o644); err != nil {
			fmt.Fprintln(os.Stderr, err)
			os.Exit(2)
		}
	}
	os.Exit(exit)
}

func summary(h string, st *interp.Stats) {
	nv := 0
	for _, n := range st.ViolCount {
		nv += n
	}
	fmt.Printf("%-28s paths=%d vacuous=%d inconclusive=%d branches=%d (repaired %d) choices=%d queries=%d (sat %d unsat %d unknown %d) asserts=%d+%d triv wall=%v solver=%v instrs=%d leftover=%d violations=%d/%d keys capped=%v timedout=%v\n",
		h, st.Paths, st.Vacuous, st.Inconclusive, st.Branches, st.Repaired, st.Choices, st.Queries, st.QSat, st.QUnsat, st.QUnknown,
		st.Asserts, st.AssertsTriv, st.Wall.Round(time.Millisecond), st.SolverTime.Round(time.Millisecond), st.Instrs, st.Leftover, nv, len(st.ViolCount), st.PathCapHit, st.TimedOut)
	var keys []string
	for k := range st.ViolCount {
		keys = append(keys, k)
	}
	sort.Strings(keys)
	for _, k := range keys {
		fmt.Printf("    VIOL x%d %s\n", st.ViolCount[k], k)
		if vs := st.Violations[k]; len(vs) > 0 {
			fmt.Printf("         vector=%v observe=%q\n", vs[0].Vector, vs[0].Observe)
		}
	}
	for m, n := range st.InconMsgs {
		if len(m) > 600 {
			m = m[:600]
		}
		fmt.Printf("    INCONCLUSIVE x%d %s\n", n, m)
	}
	if st.InconExample != "" {
		ex := st.InconExample
		if len(ex) > 3000 {
			ex = ex[:3000]
		}
		fmt.Println("    EXAMPLE:", ex)
	}
	for _, e := range st.SolverErrors {
		fmt.Printf("    SOLVER-ERROR %s\n", e)
	}
}
