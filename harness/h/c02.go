package h

import (
	"verifharness/nd"
)

// C02 — every grammatical program is accepted and its AST mirrors its
// derivation.
//
// gen builds a complete command from engine-enumerated choices together with
// the skeleton the parser must produce for it (the position-free rendering of
// lib.go). Leaf words are symbolic runes constrained to word characters, so
// acceptance and the AST shape are decided for every such character at once.

type gen struct {
	multiline bool
	leaf      string // symbolic first character of every word
	name      string // symbolic first character of every name
	n         int
	budget    int
	paren     int  // nesting depth of ( ) while generating
	arithIn   bool // a (( )) command was generated inside parentheses
	inSeq     int  // nesting of seq calls (0: top level)
}

// leafWord returns a fresh two-character word: the generator's symbolic word
// character (a letter, a digit, '_', '-', '/', '.' or a non-ASCII letter)
// followed by a running index letter, so that all words of a program differ.
func (g *gen) leafWord() string {
	g.n++
	return g.leaf + string(rune('a'+g.n%26))
}

// nameLeaf returns a fresh XBD name: the symbolic name start (letter or '_')
// followed by an index letter.
func (g *gen) nameLeaf() string {
	g.n++
	return g.name + string(rune('a'+g.n%26))
}

// pick is an engine-enumerated choice that may deviate from the default
// alternative (0) only while the variety budget lasts: the generator covers
// every derivation with at most budget non-default productions, i.e. every
// production and every pair of productions, without the full product.
func (g *gen) pick(n int) int {
	if g.budget <= 0 {
		return 0
	}
	k := nd.Choice(n)
	if k != 0 {
		g.budget--
	}
	return k
}

func newGen(budget int) *gen {
	g := &gen{multiline: nd.Choice(2) == 1, budget: budget}
	g.leaf = string(nd.RuneIn("aZ9_-/.é"))
	g.name = string(nd.RuneIn("aZ_é"))
	return g
}

// word returns the text of a word and its skeleton.
func (g *gen) word(d int) (string, string) {
	n := 5
	if d > 0 {
		n = 12
	}
	switch g.pick(n) {
	case 0:
		w := g.leafWord()
		return w, "<lit:" + w + ">"
	case 1:
		w := g.leafWord()
		return "'" + w + " x'", "<q'<lit:" + w + " x>>"
	case 2:
		w := g.leafWord()
		return "\"" + w + "\"", "<q\"<lit:" + w + ">>"
	case 3:
		w := g.leafWord()
		return "\\" + w, "<q\\<lit:" + g.leaf + "> lit:" + w[len(g.leaf):] + ">"
	case 4:
		v := g.nameLeaf()
		return "$" + v, "<$" + v + " op=>"
	case 5:
		v := g.nameLeaf()
		return "${" + v + "}", "<${" + v + " op=}>"
	case 6:
		v := g.nameLeaf()
		op := []string{":-", "-", ":=", "=", ":?", "?", ":+", "+", "%", "%%", "#", "##"}[g.pick(12)]
		w := g.leafWord()
		return "${" + v + op + w + "}", "<${" + v + " op=" + op + " <lit:" + w + ">}>"
	case 7:
		v := g.nameLeaf()
		return "${#" + v + "}", "<${" + v + " op=#}>"
	case 8:
		a, b := g.leafWord(), g.leafWord()
		return a + "'" + b + "'\"" + a + "\"", "<lit:" + a + " q'<lit:" + b + "> q\"<lit:" + a + ">>"
	case 9:
		t, s := g.simple(0)
		return "$(" + t + ")", "<$([" + s + "])>"
	case 10:
		t, s := g.simple(0)
		return "`" + t + "`", "<`([" + s + "])>"
	default:
		a := g.leafWord()
		return "$((" + a + "+1))", "<$((<lit:" + a + "+1>))>"
	}
}

// simple returns a simple command (collapsed skeleton "(cmd (simple ...))").
func (g *gen) simple(d int) (string, string) {
	switch g.pick(7) {
	case 0:
		t, s := g.word(d)
		return t, "(cmd (simple " + s + "))"
	case 1:
		t1, s1 := g.word(d)
		t2, s2 := g.word(0)
		return t1 + " " + t2, "(cmd (simple " + s1 + " " + s2 + "))"
	case 2:
		n := g.nameLeaf()
		tv, sv := g.word(d)
		tw, sw := g.word(0)
		return n + "=" + tv + " " + tw, "(cmd (simple (assign " + n + "=" + sv + ") " + sw + "))"
	case 3:
		n := g.nameLeaf()
		tv, sv := g.word(0)
		return n + "=" + tv, "(cmd (simple (assign " + n + "=" + sv + ")))"
	case 4:
		tw, sw := g.word(0)
		op := []string{"<", ">", ">>", ">|", "<>", "<&", ">&"}[g.pick(7)]
		tf, sf := g.word(0)
		return tw + " " + op + tf, "(cmd (simple " + sw + ") (redir " + op + " " + sf + "))"
	case 5:
		tw, sw := g.word(0)
		tf, sf := g.word(0)
		return tw + " 2>" + tf, "(cmd (simple " + sw + ") (redir 2> " + sf + "))"
	default:
		tf, sf := g.word(0)
		return ">" + tf, "(cmd (simple) (redir > " + sf + "))"
	}
}

// cmd returns a command (simple or compound) and its collapsed skeleton.
func (g *gen) cmd(d int) (string, string) {
	if d == 0 {
		return g.simple(0)
	}
	switch g.pick(12) {
	case 0:
		return g.simple(d)
	case 1:
		g.paren++
		t, s := g.seq(d-1, false)
		g.paren--
		return paren(t), "(cmd (subshell " + s + "))"
	case 2:
		t, s := g.seq(d-1, true)
		return "{ " + t + "}", "(cmd (group " + s + "))"
	case 3:
		a := g.leafWord()
		if g.paren > 0 {
			g.arithIn = true
		}
		return "((" + a + " + 1))", "(cmd (arith-eval <lit:" + a + " lit:+ lit:1>))"
	case 4:
		v := g.nameLeaf()
		w1, s1 := g.word(0)
		t, s := g.seq(d-1, true)
		return "for " + v + " in " + w1 + " y; do " + t + "done", "(cmd (for " + v + " in " + s1 + " <lit:y> do " + s + "))"
	case 5:
		v := g.nameLeaf()
		t, s := g.seq(d-1, true)
		if g.pick(2) == 0 {
			return "for " + v + " do " + t + "done", "(cmd (for " + v + " do " + s + "))"
		}
		return "for " + v + "; do " + t + "done", "(cmd (for " + v + " do " + s + "))"
	case 6:
		w, sw := g.word(0)
		p1, sp1 := g.word(0)
		t, s := g.seq(d-1, false)
		switch g.pick(4) {
		case 3:
			// two items whose lists end in a separator before ";;"
			if g.multiline {
				return "case " + w + " in " + p1 + ") " + t + ";; esac", "(cmd (case " + sw + " (item " + sp1 + " => " + s + ")))"
			}
			t2, s2 := g.seq(0, true)
			return "case " + w + " in " + p1 + ") " + t2 + ";; q) " + t2 + ";; esac", "(cmd (case " + sw + " (item " + sp1 + " => " + s2 + ") (item <lit:q> => " + s2 + ")))"
		case 0:
			return "case " + w + " in " + p1 + ") " + t + ";; esac", "(cmd (case " + sw + " (item " + sp1 + " => " + s + ")))"
		case 1:
			return "case " + w + " in (" + p1 + "|z) " + t + " ;; q) ;; esac", "(cmd (case " + sw + " (item " + sp1 + " <lit:z> => " + s + ") (item <lit:q> => [])))"
		default:
			return "case " + w + " in esac", "(cmd (case " + sw + "))"
		}
	case 7:
		c, sc := g.seq(d-1, true)
		t, st := g.seq(d-1, true)
		switch g.pick(3) {
		case 0:
			return "if " + c + "then " + t + "fi", "(cmd (if " + sc + " then " + st + "))"
		case 1:
			e, se := g.seq(0, true)
			return "if " + c + "then " + t + "else " + e + "fi", "(cmd (if " + sc + " then " + st + " else " + se + "))"
		default:
			e, se := g.seq(0, true)
			return "if " + c + "then " + t + "elif " + e + "then " + e + "fi", "(cmd (if " + sc + " then " + st + " elif " + se + " then " + se + "))"
		}
	case 8:
		c, sc := g.seq(d-1, true)
		t, st := g.seq(d-1, true)
		kw := []string{"while", "until"}[g.pick(2)]
		return kw + " " + c + "do " + t + "done", "(cmd (" + kw + " " + sc + " do " + st + "))"
	case 9:
		n := g.nameLeaf()
		t, s := g.seq(d-1, true)
		return n + "() { " + t + "}", "(cmd (func " + n + " (cmd (group " + s + "))))"
	case 10:
		// a compound command with redirections
		t, s := g.seq(d-1, true)
		return "{ " + t + "} >f 2>&1", "(cmd (group " + s + ") (redir > <lit:f>) (redir 2>& <lit:1>))"
	default:
		g.paren++
		t, s := g.seq(d-1, false)
		g.paren--
		return paren(t) + " <f", "(cmd (subshell " + s + ") (redir < <lit:f>))"
	}
}

// item returns an and-or level item: text, collapsed skeleton, and whether the
// skeleton already is an "(andor ...)" form.
func (g *gen) item(d int) (string, string, bool) {
	switch g.pick(6) {
	case 0, 1:
		t, s := g.cmd(d)
		return t, s, false
	case 2:
		t1, s1 := g.cmd(d)
		t2, s2 := g.cmd(0)
		return t1 + " | " + t2, "(pipe " + s1 + " | " + s2 + ")", false
	case 3:
		t, s := g.cmd(d)
		return "! " + t, "(pipe ! " + s + ")", false
	case 4:
		t1, s1 := g.cmd(d)
		t2, s2 := g.cmd(0)
		op := []string{"&&", "||"}[g.pick(2)]
		return t1 + " " + op + " " + t2, "(andor " + s1 + " " + op + " " + s2 + ")", true
	default:
		t1, s1 := g.cmd(0)
		t2, s2 := g.cmd(0)
		t3, s3 := g.cmd(0)
		return t1 + " && " + t2 + " | " + t3, "(andor " + s1 + " && (pipe " + s2 + " | " + s3 + "))", true
	}
}

// paren wraps t in a subshell; "((" would be the arithmetic command.
func paren(t string) string {
	if len(t) > 0 && t[0] == '(' {
		return "( " + t + ")"
	}
	return "(" + t + ")"
}

func withSep(s string, isAO bool, sep string) string {
	if isAO {
		return s[:len(s)-1] + " sep=" + sep + ")"
	}
	return "(andor " + s + " sep=" + sep + ")"
}

func asAndOr(s string, isAO bool) string {
	if isAO {
		return s
	}
	return "(andor " + s + ")"
}

// seq returns a compound list of one or two items and the skeleton of the
// []Command the parser builds for it. terminated: the text must end with a
// separator (it is followed by a reserved word such as then, do, fi, }).
func (g *gen) seq(d int, terminated bool) (string, string) {
	top := g.inSeq == 0
	g.inSeq++
	defer func() { g.inSeq-- }()
	n := 1 + g.pick(2)
	t1, s1, a1 := g.item(d)
	if n == 1 {
		amp := terminated && g.pick(2) == 1 // the item runs in the background
		if g.multiline {
			if amp {
				return "\n" + t1 + " &\n", "[" + withSep(s1, a1, "&") + "]"
			}
			if terminated {
				return "\n" + t1 + "\n", "[" + s1 + "]"
			}
			return t1, "[" + s1 + "]"
		}
		if amp {
			return t1 + " & ", "[" + withSep(s1, a1, "&") + "]"
		}
		if terminated {
			return t1 + "; ", "[" + withSep(s1, a1, ";") + "]"
		}
		return t1, "[" + s1 + "]"
	}
	t2, s2, a2 := g.item(0)
	sep1 := []string{";", "&"}[g.pick(2)]
	if g.multiline {
		// newline-separated: separate commands; an "&" stays on its item
		x1 := s1
		tt1 := t1
		if sep1 == "&" {
			x1 = withSep(s1, a1, "&")
			tt1 = t1 + " &"
			if !top {
				// inside a compound command "a &<newline>b" is one list
				// (separator_op linebreak), as "a & b" is; at top level the
				// first call ends at the newline
				x := "[(list " + x1 + " " + asAndOr(s2, a2) + ")]"
				if terminated {
					return "\n" + tt1 + "\n" + t2 + "\n", x
				}
				return tt1 + "\n" + t2, x
			}
		}
		if terminated {
			return "\n" + tt1 + "\n" + t2 + "\n", "[" + x1 + " " + s2 + "]"
		}
		return tt1 + "\n" + t2, "[" + x1 + " " + s2 + "]"
	}
	js := "; "
	if sep1 == "&" {
		js = " & "
	}
	if terminated {
		return t1 + js + t2 + "; ", "[(list " + withSep(s1, a1, sep1) + " " + withSep(s2, a2, ";") + ")]"
	}
	return t1 + js + t2, "[(list " + withSep(s1, a1, sep1) + " " + asAndOr(s2, a2) + ")]"
}

func c02(d, budget int) {
	g := newGen(budget)
	text, want := g.seq(d, false)
	nd.Observe(text)
	cmds, _, err := parseStream([]rune(text))
	nd.Assert(err == nil, "a program derived from the grammar is accepted")
	if err != nil {
		nd.Observe(errStr(err))
		return
	}
	got := Skel(cmds)
	if g.arithIn {
		nd.Cover("arith-in-parentheses")
		nd.Assert(got == want, "a (( )) command inside parentheses is parsed as the arithmetic command")
	} else {
		nd.Assert(got == want, "the AST contains exactly the derivation's commands, operators, words and redirections")
	}
	if got != want {
		nd.Observe(want)
		nd.Observe(got)
	}
}

func C02_D1B2() { c02(1, 2) }
func C02_D2B2() { c02(2, 2) }
func C02_D2B3() { c02(2, 3) }

var reservedWords = []string{"!", "{", "}", "for", "case", "esac", "in", "if", "elif", "then", "else", "fi", "while", "until", "do", "done"}

// C02_Reserved: reserved words are ordinary words outside the positions where
// the grammar admits them.
func C02_Reserved() {
	rw := reservedWords[nd.Choice(len(reservedWords))]
	lit := "<lit:" + rw + ">"
	var text, want string
	switch nd.Choice(6) {
	case 0:
		text, want = "x "+rw, "[(cmd (simple <lit:x> "+lit+"))]"
	case 1:
		text, want = "for i in "+rw+" y; do a; done", "[(cmd (for i in "+lit+" <lit:y> do [(andor (cmd (simple <lit:a>)) sep=;)]))]"
	case 2:
		if rw == "esac" {
			nd.Assume(false) // "case x in esac" ends the clause
		}
		text, want = "case x in "+rw+") a;; esac", "[(cmd (case <lit:x> (item "+lit+" => [(cmd (simple <lit:a>))])))]"
	case 3:
		text, want = "x >"+rw, "[(cmd (simple <lit:x>) (redir > "+lit+"))]"
	case 4:
		text, want = "v="+rw+" x", "[(cmd (simple (assign v="+lit+") <lit:x>))]"
	case 5:
		text, want = "case "+rw+" in a) b;; esac", "[(cmd (case "+lit+" (item <lit:a> => [(cmd (simple <lit:b>))])))]"
	}
	nd.Observe(text)
	cmds, _, err := parseStream([]rune(text))
	nd.Assert(err == nil, "a reserved word in a non-command position is an ordinary word")
	if err == nil {
		nd.Assert(Skel(cmds) == want, "a reserved word in a non-command position is an ordinary word (AST)")
	}
}

// C02_Closers: a reserved word is recognised directly after the closing token
// of a compound command; the oracle is the same text with an explicit
// separator.
func C02_Closers() {
	pairs := [][2]string{
		{"if (a) then b; fi", "if (a); then b; fi"},
		{"if { a; } then b; fi", "if { a; }; then b; fi"},
		{"while (a) do b; done", "while (a); do b; done"},
		{"until { a; } do b; done", "until { a; }; do b; done"},
		{"{ (a) }", "{ (a); }"},
		{"{ { a; } }", "{ { a; }; }"},
		{"if a; then (b) fi", "if a; then (b); fi"},
		{"if a; then (b) else (c) fi", "if a; then (b); else (c); fi"},
		{"if a; then (b) elif (c) then (d) fi", "if a; then (b); elif (c); then (d); fi"},
		{"for i in x; do (a) done", "for i in x; do (a); done"},
		{"case x in a) (b) esac", "case x in a) (b);; esac"},
		{"if a; then if b; then c; fi fi", "if a; then if b; then c; fi; fi"},
		{"while a; do while b; do c; done done", "while a; do while b; do c; done; done"},
		{"if a; then case x in y) z;; esac fi", "if a; then case x in y) z;; esac; fi"},
		{"if a; then { b; } >f fi", "if a; then { b; } >f; fi"},
		{"{ for i in x; do a; done }", "{ for i in x; do a; done; }"},
	}
	p := pairs[nd.Choice(len(pairs))]
	nd.Observe(p[0])
	got, _, err := parseStream([]rune(p[0]))
	want, _, err2 := parseStream([]rune(p[1]))
	nd.Assert(err2 == nil, "the explicit form parses")
	nd.Assert(err == nil, "a reserved word directly after a compound command's closing token is recognised")
	if err == nil && err2 == nil {
		nd.Assert(SkelEq(got) == SkelEq(want), "a reserved word directly after a closing token gives the same program as with a separator")
	}
}

// genProgram returns the text of a generated derivation (for the print/parse
// round-trip harnesses).
func genProgram(d, budget int) []rune {
	g := &gen{multiline: nd.Choice(2) == 1, budget: budget}
	g.leaf = string(nd.RuneIn("a9é"))
	g.name = "v"
	text, _ := g.seq(d, false)
	return []rune(text)
}

// C02_Cross: constructs whose recognition depends on bookkeeping done by
// another construct (parenthesis counting across case patterns, subshells,
// function definitions and command substitutions versus the (( )) command;
// here-document and reserved-word state across compound commands). Each
// program is compared with an equivalent spelling that does not exercise the
// interaction, and must contain the node kinds it spells.
func C02_Cross() {
	pairs := [][3]string{
		{"case x in (a) ((1 + 2)) ;; esac", "case x in a) ((1 + 2)) ;; esac", "arith-eval"},
		{"case x in (a) b ;; esac; ((1 + 2))", "case x in a) b ;; esac; ((1 + 2))", "arith-eval"},
		{"case x in (a|b) c ;; (d) ((1 + 2)) ;; esac", "case x in a|b) c ;; d) ((1 + 2)) ;; esac", "arith-eval"},
		{"(a); ((1 + 2))", "( a ); ((1 + 2))", "arith-eval"},
		{"(a) && ((1 + 2)) || (b)", "( a ) && ((1 + 2)) || ( b )", "arith-eval"},
		{"f() { a; }; ((1 + 2))", "f() { a; }\n((1 + 2))", "arith-eval"},
		{"f() (a); ((1 + 2))", "f() ( a )\n((1 + 2))", "arith-eval"},
		{"x=$(a); ((1 + 2))", "x=$( a ); ((1 + 2))", "arith-eval"},
		{"a $((1 + 2)) $(b); ((3))", "a $((1 + 2)) $( b ); ((3))", "arith-eval"},
		{"if (a); then ((1 + 2)); fi", "if ( a ); then ((1 + 2)); fi", "arith-eval"},
		{"((1 + 2)); (a); ((3))", "((1 + 2))\n(a)\n((3))", "arith-eval"},
		{"for i in $(a); do ((i + 1)); done", "for i in $( a ); do ((i + 1)); done", "arith-eval"},
		{"a <<E; ((1 + 2))\nx\nE\n", "a <<E\nx\nE\n((1 + 2))", "arith-eval"},
		{"{ (a) }; ((1 + 2))", "{ (a); }; ((1 + 2))", "arith-eval"},
		{"((1 + 2)); ( (a))", "((1 + 2)); ( ( a ) )", "subshell"},
		{"if ((1 > 0)); then (a && (b)); fi", "if ((1 > 0)); then ( a && ( b ) ); fi", "subshell"},
		{"((1)); x=$( (a))", "((1)); x=$( ( a ) )", "subshell"},
	}
	p := pairs[nd.Choice(len(pairs))]
	nd.Observe(p[0])
	got, _, err := parseStream([]rune(p[0]))
	want, _, err2 := parseStream([]rune(p[1]))
	nd.Assert(err == nil && err2 == nil, "both spellings are accepted")
	if err != nil || err2 != nil {
		return
	}
	g, w := SkelEq(got), SkelEq(want)
	nd.Assert(g == w, "the two spellings denote the same program")
	nd.Assert(contains2(g, p[2]), "the construct is recognised as what it spells")
}

func contains2(s, sub string) bool {
	for i := 0; i+len(sub) <= len(s); i++ {
		if s[i:i+len(sub)] == sub {
			return true
		}
	}
	return false
}

// C02_Compose: compositionality of the AST. For a context C (a construct with
// one command slot) and a command X, the skeleton of C[X] must be the skeleton
// of C[zz] with the skeleton of X in place of the placeholder command. Two
// levels of contexts are enumerated, the leaf characters of X are symbolic.
// This covers interactions between constructs (parenthesis bookkeeping,
// reserved-word state, here-document and case state) at a nesting depth that
// the variety budget of the generator does not reach.
var composeCtx = []string{
	"%", "( % )", "(%)", "x $(%)", "{ %; }", "if %; then a; fi", "if a; then %; fi", "if a; then b; else %; fi",
	"while %; do a; done", "until a; do %; done", "f() { %; }", "a | %", "% | a", "% && b", "b || %",
	"for i in a; do %; done", "case x in a) % ;; esac", "case x in (a) % ;; esac", "case x in (a|b) c ;; d) % ;; esac",
	"% &", "x `%`", "x=$(%)", "( % ) >f", "{ %; } 2>&1", "a; %", "%; a", "a <<E; %\nx\nE\n", "{ %\n}",
}

var composeInner = []string{
	"§a §b", "((1 + 2))", "( §a )", "(§a; §b)", "{ §a; }", "case §x in (§a) ((1 + 2)) ;; esac", "case §x in §a) §b ;; (§c|§d) §e ;; esac",
	"if §a; then §b; fi", "if (§a) then §b; fi", "for i in §a §b; do §c; done", "for i do §c; done", "while §a; do §b; done",
	"f() { §a; }", "f() ( §a )", "§a <§f >§g", "x=§1 y=§2 §a", "§a $(§b) `§c`", "§a $((1 + 2))", "§a \"$(§b)\" '§c'", "§a ${v:-§b}",
	"case §x in esac", "§a <<F", "{ ( §a ) }", "( { §a; } )", "if §a; then §b; elif §c; then §d; else §e; fi",
}

func fill(ctx, x string) string {
	out := ""
	for _, r := range ctx {
		if r == '%' {
			out += x
		} else {
			out += string(r)
		}
	}
	return out
}

func c02Compose(levels int) {
	leaf := string(nd.RuneIn("a9_/é"))
	x := ""
	for _, r := range composeInner[nd.Choice(len(composeInner))] {
		if r == '§' {
			x += leaf
		} else {
			x += string(r)
		}
	}
	c1 := composeCtx[nd.Choice(len(composeCtx))]
	ctx := c1
	if levels > 1 {
		c2 := composeCtx[nd.Choice(len(composeCtx))]
		// here-document contexts cannot be nested textually
		if (hasNL(c1) || c1 == "% &") && c2 != "%" {
			nd.Assume(false) // "a &; b" is not a list
		}
		if hasBquote(c1) && hasBquote(c2) {
			nd.Assume(false) // backquotes do not nest textually
		}
		ctx = fill(c2, c1)
	}
	for i := 0; i+1 < len(ctx); i++ {
		if ctx[i] == '(' && ctx[i+1] == '(' {
			nd.Assume(false) // "((" would spell the arithmetic command
		}
	}
	for i := 0; i < len(ctx); i++ {
		if ctx[i] == '`' {
			for j := 0; j < len(x); j++ {
				if x[j] == '`' {
					nd.Assume(false) // backquotes do not nest textually
				}
			}
			break
		}
	}
	body := ""
	if len(x) > 3 && x[len(x)-3:] == "<<F" {
		// the body of the inner here-document follows the line it stands on
		if hasNL(ctx) || hasSubst(ctx) || hasBquote(ctx) {
			nd.Assume(false)
		}
		body = "\n$y\nF\n"
	}
	if x[0] == '(' {
		for i := 0; i+1 < len(ctx); i++ {
			if ctx[i] == '(' && ctx[i+1] == '%' {
				nd.Assume(false) // "((" would spell the arithmetic command
			}
		}
	}
	if len(x) > 1 && x[:2] == "((" {
		// KF-C02-arith-in-parentheses: (( is recognised only while go.sh's
		// parenthesis count is zero; the count is reset by every case pattern.
		// In a context prefix the only ')' are those of "f()" and of case patterns.
		depth := 0
		for i := 0; i < len(ctx) && ctx[i] != '%'; i++ {
			switch {
			case ctx[i] == '(' && i+1 < len(ctx) && ctx[i+1] == ')':
				i++
			case ctx[i] == '(':
				depth++
			case ctx[i] == ')':
				depth = 0
			}
		}
		if depth > 0 {
			nd.Cover("arith-in-parentheses-skipped")
			nd.Assume(false)
		}
	}
	whole := fill(ctx, x) + body
	nd.Observe(whole)
	cx, _, ex := parseStream([]rune(x + body))
	nd.Assert(ex == nil && len(cx) == 1, "the inner command parses on its own")
	if ex != nil || len(cx) != 1 {
		return
	}
	cp, _, ep := parseStream([]rune(fill(ctx, "zz")))
	nd.Assert(ep == nil, "the context parses with a placeholder")
	if ep != nil {
		return
	}
	cw, _, ew := parseStream([]rune(whole))
	nd.Assert(ew == nil, "a command is accepted in every context that admits a command")
	if ew != nil {
		return
	}
	sx := Skel(cx)
	sx = sx[1 : len(sx)-1]
	want := replaceOnce(Skel(cp), "(cmd (simple <lit:zz>))", sx)
	nd.Assert(Skel(cw) == want, "the AST of a construct contains the AST of the command placed in it")
}

func hasNL(s string) bool {
	for _, r := range s {
		if r == '\n' {
			return true
		}
	}
	return false
}

func hasSubst(s string) bool {
	for i := 0; i+1 < len(s); i++ {
		if s[i] == '$' && s[i+1] == '(' {
			return true
		}
	}
	return false
}

func replaceOnce(s, old, new string) string {
	for i := 0; i+len(old) <= len(s); i++ {
		if s[i:i+len(old)] == old {
			return s[:i] + new + s[i+len(old):]
		}
	}
	return s
}

func C02_Compose1() { c02Compose(1) }
func C02_Compose2() { c02Compose(2) }

func hasBquote(s string) bool {
	for i := 0; i < len(s); i++ {
		if s[i] == '`' {
			return true
		}
	}
	return false
}
