package h

// Shared harness library: canonical AST skeletons, node walker, printing.
// Everything here is plain Go that runs both under the gosx engine (where
// strings may carry symbolic bytes) and natively.

import (
	"strconv"
	"strings"

	"github.com/hattya/go.sh/ast"
	"github.com/hattya/go.sh/printer"
)

// ---------------------------------------------------------------- skeleton

type skel struct {
	b      strings.Builder
	sepEq  bool // identify ";" with newline (empty Sep)
	noHere bool
}

// Skel returns a canonical, position-free rendering of cmds.
func Skel(cmds []ast.Command) string {
	var s skel
	s.cmds(cmds)
	return s.b.String()
}

// SkelEq is Skel with ";" separators identified with newline separators.
func SkelEq(cmds []ast.Command) string {
	s := skel{sepEq: true}
	s.cmds(cmds)
	return s.b.String()
}

func (s *skel) w(x string) { s.b.WriteString(x) }

func (s *skel) cmds(cs []ast.Command) {
	s.w("[")
	n := 0
	for _, c := range cs {
		if l, ok := c.(ast.List); ok && s.sepEq {
			// "a; b" and "a<newline>b" are the same sequence of commands
			for _, ao := range l {
				if n > 0 {
					s.w(" ")
				}
				s.andOr(ao)
				n++
			}
			continue
		}
		if n > 0 {
			s.w(" ")
		}
		s.cmd(c)
		n++
	}
	s.w("]")
}

func (s *skel) cmd(c ast.Command) {
	switch c := c.(type) {
	case ast.List:
		if s.sepEq && len(c) == 1 {
			s.andOr(c[0])
			return
		}
		s.w("(list")
		for _, ao := range c {
			s.w(" ")
			s.andOr(ao)
		}
		s.w(")")
	case *ast.AndOrList:
		s.andOr(c)
	case *ast.Pipeline:
		s.pipeline(c)
	case *ast.Cmd:
		s.cmdx(c)
	case nil:
		s.w("<nil-cmd>")
	default:
		s.w("<?cmd>")
	}
}

func (s *skel) andOr(c *ast.AndOrList) {
	if c == nil {
		s.w("<nil-andor>")
		return
	}
	sep := c.Sep
	if s.sepEq && sep == ";" {
		sep = ""
	}
	if s.sepEq && sep == "" && len(c.List) == 0 {
		// "a;" and "a<newline>" are the same program: the parser collapses the
		// separator-less form to its pipeline
		s.pipeline(c.Pipeline)
		return
	}
	s.w("(andor ")
	s.pipeline(c.Pipeline)
	for _, ao := range c.List {
		s.w(" ")
		s.w(ao.Op)
		s.w(" ")
		s.pipeline(ao.Pipeline)
	}
	if sep != "" {
		s.w(" sep=")
		s.w(sep)
	}
	s.w(")")
}

func (s *skel) pipeline(c *ast.Pipeline) {
	if c == nil {
		s.w("<nil-pipeline>")
		return
	}
	if c.Bang.IsZero() && len(c.List) == 0 {
		s.cmdx(c.Cmd)
		return
	}
	s.w("(pipe")
	if !c.Bang.IsZero() {
		s.w(" !")
	}
	s.w(" ")
	s.cmdx(c.Cmd)
	for _, p := range c.List {
		s.w(" ")
		s.w(p.Op)
		s.w(" ")
		s.cmdx(p.Cmd)
	}
	s.w(")")
}

func (s *skel) cmdx(c *ast.Cmd) {
	if c == nil {
		s.w("<nil-cmdx>")
		return
	}
	s.w("(cmd ")
	switch x := c.Expr.(type) {
	case *ast.SimpleCmd:
		s.w("(simple")
		for _, a := range x.Assigns {
			s.w(" (assign ")
			s.w(a.Name.Value)
			s.w(a.Op)
			s.word(a.Value)
			s.w(")")
		}
		for _, a := range x.Args {
			s.w(" ")
			s.word(a)
		}
		s.w(")")
	case *ast.Subshell:
		s.w("(subshell ")
		s.cmds(x.List)
		s.w(")")
	case *ast.Group:
		s.w("(group ")
		s.cmds(x.List)
		s.w(")")
	case *ast.ArithEval:
		s.w("(arith-eval ")
		s.arith(x.Expr)
		s.w(")")
	case *ast.ForClause:
		s.w("(for ")
		s.w(x.Name.Value)
		if !x.In.IsZero() {
			s.w(" in")
			for _, it := range x.Items {
				s.w(" ")
				s.word(it)
			}
		}
		s.w(" do ")
		s.cmds(x.List)
		s.w(")")
	case *ast.CaseClause:
		s.w("(case ")
		s.word(x.Word)
		for _, it := range x.Items {
			s.w(" (item")
			for _, p := range it.Patterns {
				s.w(" ")
				s.word(p)
			}
			s.w(" => ")
			s.cmds(it.List)
			s.w(")")
		}
		s.w(")")
	case *ast.IfClause:
		s.w("(if ")
		s.cmds(x.Cond)
		s.w(" then ")
		s.cmds(x.List)
		for _, e := range x.Else {
			switch e := e.(type) {
			case *ast.ElifClause:
				s.w(" elif ")
				s.cmds(e.Cond)
				s.w(" then ")
				s.cmds(e.List)
			case *ast.ElseClause:
				s.w(" else ")
				s.cmds(e.List)
			}
		}
		s.w(")")
	case *ast.WhileClause:
		s.w("(while ")
		s.cmds(x.Cond)
		s.w(" do ")
		s.cmds(x.List)
		s.w(")")
	case *ast.UntilClause:
		s.w("(until ")
		s.cmds(x.Cond)
		s.w(" do ")
		s.cmds(x.List)
		s.w(")")
	case *ast.FuncDef:
		s.w("(func ")
		s.w(x.Name.Value)
		s.w(" ")
		s.cmd(x.Body)
		s.w(")")
	case nil:
		s.w("<nil-expr>")
	default:
		s.w("<?expr>")
	}
	for _, r := range c.Redirs {
		s.w(" ")
		s.redir(r)
	}
	s.w(")")
}

func (s *skel) redir(r *ast.Redir) {
	s.w("(redir ")
	if r.N != nil {
		s.w(r.N.Value)
	}
	s.w(r.Op)
	s.w(" ")
	s.word(r.Word)
	if r.Heredoc != nil || r.Delim != nil {
		s.w(" heredoc=")
		s.word(r.Heredoc)
		s.w(" delim=")
		s.word(r.Delim)
	}
	s.w(")")
}

func (s *skel) word(w ast.Word) {
	s.w("<")
	prevLit := false
	for i, p := range w {
		if l, ok := p.(*ast.Lit); ok && s.sepEq && prevLit {
			// adjacent literals (left behind by a line continuation) are one literal
			s.w(l.Value)
			continue
		}
		if i > 0 {
			s.w(" ")
		}
		s.part(p)
		_, prevLit = p.(*ast.Lit)
	}
	s.w(">")
}

// arith renders the expression of (( )) / $(( )). The lexer splits it at
// blanks into parts; whether two consecutive parts were separated by layout
// is part of the expression ("1 - -x" is not "1 --x"), so under sepEq
// adjacent literals are merged only when nothing separates them in the source.
func (s *skel) arith(w ast.Word) {
	if !s.sepEq {
		s.word(w)
		return
	}
	s.w("<")
	for i, p := range w {
		l, isLit := p.(*ast.Lit)
		if i > 0 {
			_, prevLit := w[i-1].(*ast.Lit)
			e, b := w[i-1].End(), p.Pos()
			gap := e.Line() != b.Line() || e.Col() != b.Col()
			if isLit && prevLit && !gap {
				s.w(l.Value)
				continue
			}
			if gap {
				s.w(" _ ")
			} else {
				s.w(" ")
			}
		}
		s.part(p)
	}
	s.w(">")
}

func (s *skel) part(p ast.WordPart) {
	switch p := p.(type) {
	case *ast.Lit:
		s.w("lit:")
		s.w(p.Value)
	case *ast.Quote:
		s.w("q")
		s.w(p.Tok)
		s.word(p.Value)
	case *ast.ParamExp:
		s.w("$")
		if p.Braces {
			s.w("{")
		}
		if p.Name != nil {
			s.w(p.Name.Value)
		}
		s.w(" op=")
		s.w(p.Op)
		if p.Word != nil {
			s.w(" ")
			s.word(p.Word)
		}
		if p.Braces {
			s.w("}")
		}
	case *ast.CmdSubst:
		if p.Dollar {
			s.w("$(")
		} else {
			s.w("`(")
		}
		s.cmds(p.List)
		s.w(")")
	case *ast.ArithExp:
		s.w("$((")
		s.arith(p.Expr)
		s.w("))")
	case nil:
		s.w("<nil-part>")
	default:
		s.w("<?part>")
	}
}

// ---------------------------------------------------------------- walker

// WalkNodes calls fn for every node reachable from cmds (commands, command
// expressions, redirections, words, word parts, nested substitutions).
func WalkNodes(cmds []ast.Command, fn func(n ast.Node, kind string)) {
	for _, c := range cmds {
		walkCmd(c, fn)
	}
}

func walkCmd(c ast.Command, fn func(ast.Node, string)) {
	switch c := c.(type) {
	case ast.List:
		fn(c, "List")
		for _, ao := range c {
			walkCmd(ao, fn)
		}
	case *ast.AndOrList:
		fn(c, "AndOrList")
		walkCmd(c.Pipeline, fn)
		for _, ao := range c.List {
			fn(ao, "AndOr")
			walkCmd(ao.Pipeline, fn)
		}
	case *ast.Pipeline:
		fn(c, "Pipeline")
		walkCmd(c.Cmd, fn)
		for _, p := range c.List {
			fn(p, "Pipe")
			walkCmd(p.Cmd, fn)
		}
	case *ast.Cmd:
		fn(c, "Cmd")
		walkExpr(c.Expr, fn)
		for _, r := range c.Redirs {
			fn(r, "Redir")
			if r.N != nil {
				fn(r.N, "Lit")
			}
			walkWord(r.Word, fn)
			walkWord(r.Heredoc, fn)
			walkWord(r.Delim, fn)
		}
	}
}

func walkCmds(cs []ast.Command, fn func(ast.Node, string)) {
	for _, c := range cs {
		walkCmd(c, fn)
	}
}

func walkExpr(x ast.CmdExpr, fn func(ast.Node, string)) {
	switch x := x.(type) {
	case *ast.SimpleCmd:
		fn(x, "SimpleCmd")
		for _, a := range x.Assigns {
			fn(a, "Assign")
			fn(a.Name, "Lit")
			walkWord(a.Value, fn)
		}
		for _, a := range x.Args {
			walkWord(a, fn)
		}
	case *ast.Subshell:
		fn(x, "Subshell")
		walkCmds(x.List, fn)
	case *ast.Group:
		fn(x, "Group")
		walkCmds(x.List, fn)
	case *ast.ArithEval:
		fn(x, "ArithEval")
		walkWord(x.Expr, fn)
	case *ast.ForClause:
		fn(x, "ForClause")
		fn(x.Name, "Lit")
		for _, w := range x.Items {
			walkWord(w, fn)
		}
		walkCmds(x.List, fn)
	case *ast.CaseClause:
		fn(x, "CaseClause")
		walkWord(x.Word, fn)
		for _, it := range x.Items {
			fn(it, "CaseItem")
			for _, p := range it.Patterns {
				walkWord(p, fn)
			}
			walkCmds(it.List, fn)
		}
	case *ast.IfClause:
		fn(x, "IfClause")
		walkCmds(x.Cond, fn)
		walkCmds(x.List, fn)
		for _, e := range x.Else {
			switch e := e.(type) {
			case *ast.ElifClause:
				fn(e, "ElifClause")
				walkCmds(e.Cond, fn)
				walkCmds(e.List, fn)
			case *ast.ElseClause:
				fn(e, "ElseClause")
				walkCmds(e.List, fn)
			}
		}
	case *ast.WhileClause:
		fn(x, "WhileClause")
		walkCmds(x.Cond, fn)
		walkCmds(x.List, fn)
	case *ast.UntilClause:
		fn(x, "UntilClause")
		walkCmds(x.Cond, fn)
		walkCmds(x.List, fn)
	case *ast.FuncDef:
		fn(x, "FuncDef")
		fn(x.Name, "Lit")
		walkCmd(x.Body, fn)
	}
}

func walkWord(w ast.Word, fn func(ast.Node, string)) {
	if w == nil {
		return
	}
	fn(w, "Word")
	for _, p := range w {
		walkPart(p, fn)
	}
}

func walkPart(p ast.WordPart, fn func(ast.Node, string)) {
	switch p := p.(type) {
	case *ast.Lit:
		fn(p, "Lit")
	case *ast.Quote:
		fn(p, "Quote")
		walkWord(p.Value, fn)
	case *ast.ParamExp:
		fn(p, "ParamExp")
		if p.Name != nil {
			fn(p.Name, "Lit")
		}
		walkWord(p.Word, fn)
	case *ast.CmdSubst:
		fn(p, "CmdSubst")
		walkCmds(p.List, fn)
	case *ast.ArithExp:
		fn(p, "ArithExp")
		walkWord(p.Expr, fn)
	}
}

// Words collects every top-level word of cmds (arguments, assignment values,
// redirection targets, for items, case words and patterns).
func Words(cmds []ast.Command) []ast.Word {
	var ws []ast.Word
	WalkNodes(cmds, func(n ast.Node, kind string) {
		if kind == "Word" {
			ws = append(ws, n.(ast.Word))
		}
	})
	return ws
}

// ---------------------------------------------------------------- printing

// errWriter fails once more than Limit bytes have been written (Limit < 0: never).
type errWriter struct {
	B      strings.Builder
	Limit  int
	N      int
	Failed bool
}

type writeErr struct{}

func (writeErr) Error() string { return "injected write error" }

var ErrWrite error = writeErr{}

func (w *errWriter) Write(p []byte) (int, error) {
	if w.Limit >= 0 && w.N+len(p) > w.Limit {
		w.Failed = true
		return 0, ErrWrite
	}
	w.N += len(p)
	w.B.Write(p)
	return len(p), nil
}

// PrintCmds prints commands one per line with cfg (nil: default config).
func PrintCmds(cfg *printer.Config, cmds []ast.Command) (string, error) {
	var b strings.Builder
	for i, c := range cmds {
		if i > 0 {
			b.WriteByte('\n')
		}
		var err error
		if cfg == nil {
			err = printer.Fprint(&b, c)
		} else {
			err = cfg.Fprint(&b, c)
		}
		if err != nil {
			return b.String(), err
		}
	}
	return b.String(), nil
}

func printerFprint(w *errWriter, n ast.Node) error { return printer.Fprint(w, n) }

func itoa(n int) string { return strconv.Itoa(n) }

func posStr(p ast.Pos) string { return itoa(p.Line()) + ":" + itoa(p.Col()) }

func errStr(err error) string {
	if err == nil {
		return "<nil>"
	}
	return err.Error()
}

func runesOf(s string) []rune { return []rune(s) }
