package interp

// gosx: a happens-before data-race monitor (vector clocks) over the
// interpreted program's memory cells. It is a monitor inside the engine's
// model, not the Go race detector: edges come from channel operations, close,
// mutex unlock->lock, atomic store->load and go statements; accesses are the
// loads and stores through pointers executed by the interpreter. A pair of
// conflicting accesses from two goroutines that is not ordered by these edges
// is reported even when the explored schedule happened to separate them.

import (
	"fmt"
	"go/types"
)

type vclock []uint32

func (v vclock) get(g int) uint32 {
	if g < len(v) {
		return v[g]
	}
	return 0
}

func (v *vclock) set(g int, c uint32) {
	for len(*v) <= g {
		*v = append(*v, 0)
	}
	(*v)[g] = c
}

func (v *vclock) join(o vclock) {
	for g, c := range o {
		if c > v.get(g) {
			v.set(g, c)
		}
	}
}

func (v vclock) copy() vclock { return append(vclock(nil), v...) }

type shadow struct {
	wG    int
	wClk  uint32
	wSite string
	reads map[int]uint32
	rSite map[int]string
}

type raceMon struct {
	on     bool
	cells  map[*value]*shadow
	addrVC map[*value]vclock // atomics and mutexes
	found  map[string]bool
}

func newRaceMon() *raceMon {
	return &raceMon{cells: map[*value]*shadow{}, addrVC: map[*value]vclock{}, found: map[string]bool{}}
}

func (g *G) tick() { g.vc.set(g.id, g.vc.get(g.id)+1) }

// release publishes the current goroutine's clock on a sync object's clock.
func (s *sched) release(dst *vclock) {
	if s.race == nil {
		return
	}
	dst.join(s.cur.vc)
	s.cur.tick()
}

// acquire joins a sync object's clock into the current goroutine's clock.
func (s *sched) acquire(src vclock) {
	if s.race == nil {
		return
	}
	s.cur.vc.join(src)
}

func (s *sched) releaseAddr(a *value) {
	if s.race == nil {
		return
	}
	vc := s.race.addrVC[a]
	vc.join(s.cur.vc)
	s.race.addrVC[a] = vc
	s.cur.tick()
}

func (s *sched) acquireAddr(a *value) {
	if s.race == nil {
		return
	}
	s.cur.vc.join(s.race.addrVC[a])
}

func (r *raceMon) report(i *interpreter, kind string, fr *frame, other string) {
	site := siteOf(fr)
	key := kind + " " + site + " / " + other
	if r.found[key] {
		return
	}
	r.found[key] = true
	i.px.curFrame = fr
	i.px.violation("race", "data race: "+kind+" in "+site+" is not ordered with the access in "+other, site, nil)
}

func (r *raceMon) read(i *interpreter, fr *frame, a *value) {
	g := i.sched.cur
	sh := r.cells[a]
	if sh == nil {
		sh = &shadow{wG: -1}
		r.cells[a] = sh
	}
	if sh.wG >= 0 && sh.wG != g.id && sh.wClk > g.vc.get(sh.wG) {
		r.report(i, "read", fr, sh.wSite+" (write)")
	}
	if sh.reads == nil {
		sh.reads = map[int]uint32{}
		sh.rSite = map[int]string{}
	}
	sh.reads[g.id] = g.vc.get(g.id)
	sh.rSite[g.id] = siteOf(fr)
}

func (r *raceMon) write(i *interpreter, fr *frame, a *value) {
	g := i.sched.cur
	sh := r.cells[a]
	if sh == nil {
		sh = &shadow{wG: -1}
		r.cells[a] = sh
	}
	if sh.wG >= 0 && sh.wG != g.id && sh.wClk > g.vc.get(sh.wG) {
		r.report(i, "write", fr, sh.wSite+" (write)")
	}
	for rg, rc := range sh.reads {
		if rg != g.id && rc > g.vc.get(rg) {
			r.report(i, "write", fr, sh.rSite[rg]+" (read)")
		}
	}
	sh.wG, sh.wClk, sh.wSite = g.id, g.vc.get(g.id), siteOf(fr)
	sh.reads, sh.rSite = nil, nil
}

// raceAccess records an access of type T at addr (all leaf cells of a struct
// or array value).
func raceAccess(fr *frame, T types.Type, addr *value, write bool) {
	i := fr.i
	r := i.sched.race
	if r == nil || !r.on || addr == nil {
		return
	}
	switch T := T.Underlying().(type) {
	case *types.Struct:
		st, ok := (*addr).(structure)
		if !ok {
			return
		}
		for k := range st {
			raceAccess(fr, T.Field(k).Type(), &st[k], write)
		}
	case *types.Array:
		ar, ok := (*addr).(array)
		if !ok {
			return
		}
		for k := range ar {
			raceAccess(fr, T.Elem(), &ar[k], write)
		}
	default:
		if write {
			r.write(i, fr, addr)
		} else {
			r.read(i, fr, addr)
		}
	}
}

var _ = fmt.Sprint
