// dbg prints the skeleton and the default-config print/re-parse of sources
// given on the command line (development aid).
package main

import (
	"fmt"
	"os"

	"github.com/hattya/go.sh/parser"
	"verifharness/h"
)

func main() {
	for _, src := range os.Args[1:] {
		cmds, comments, err := parser.ParseCommands(nil, "x", src)
		fmt.Printf("src=%q err=%v\n  skel=%s\n", src, err, h.Skel(cmds))
		for _, c := range comments {
			fmt.Printf("  comment %d:%d %q\n", c.Hash.Line(), c.Hash.Col(), c.Text)
		}
		out, _ := h.PrintCmds(nil, cmds)
		fmt.Printf("  printed=%q\n", out)
		cmds2, _, err2 := parser.ParseCommands(nil, "x", out)
		fmt.Printf("  reparse err=%v\n  skel=%s\n", err2, h.Skel(cmds2))
	}
}
