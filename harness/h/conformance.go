package h

import (
	"github.com/hattya/go.sh/ast"
	"github.com/hattya/go.sh/interp"
	"verifharness/nd"
)

// Conformance harnesses: the repository's own test inputs (source literals of
// parser_test.go, expression literals of arith_test.go) are pushed concretely
// through the engine; every observation is compared by the check driver with a
// native run of the same harness (engine-vs-native translation validation).

func digestPositions(cmds []ast.Command, comments []*ast.Comment) string {
	out := ""
	WalkNodes(cmds, func(n ast.Node, kind string) {
		out += kind + "@" + posStr(n.Pos()) + "-" + posStr(n.End()) + " "
	})
	for _, c := range comments {
		out += "#" + posStr(c.Pos()) + ":" + c.Text + " "
	}
	return out
}

func Conf_ParserCorpus() {
	src := RepoSources[nd.Choice(len(RepoSources))]
	cmds, comments, err := parseStreamOnce([]rune(src))
	nd.Observe(src)
	nd.Observe(errStr(err))
	nd.Observe(Skel(cmds))
	nd.Observe(digestPositions(cmds, comments))
	if err == nil {
		out, perr := PrintCmds(nil, cmds)
		nd.Observe(out + " / " + errStr(perr))
	}
}

func parseStreamOnce(src []rune) ([]ast.Command, []*ast.Comment, error) {
	cmds, comments, err, _ := parseRunes(nil, src)
	return cmds, comments, err
}

func Conf_ArithCorpus() {
	e := RepoExprs[nd.Choice(len(RepoExprs))]
	env := interp.NewExecEnv("sh")
	var inherited []string
	env.Walk(func(v interp.Var) { inherited = append(inherited, v.Name) })
	for _, n := range inherited {
		env.Unset(n)
	}
	env.Set("A", "alpha")
	env.Set("M", "0")
	env.Set("N", "1")
	env.Set("Z", "0z777")
	env.Set("X", "42")
	n, err := env.Eval(e)
	nd.Drain()
	nd.Observe(e)
	nd.Observe(itoa(n) + " " + errStr(err))
	for _, name := range []string{"X", "M", "N", "_", "x"} {
		v, set := env.Get(name)
		if set {
			nd.Observe(name + "=" + v.Value)
		}
	}
}
