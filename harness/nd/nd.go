// Package nd provides the nondeterministic inputs, assumptions and assertions
// used by the harnesses in verifharness/h.
//
// Under the gosx engine every function of this package is an intrinsic (the
// bodies below are never executed): Rune, Byte, Int64 ... create symbolic
// variables, Choice is case-split by the engine, Assume/Assert talk to the
// solver. Compiled natively the same functions read a recorded vector (one
// uint64 per call, in call order), which makes the same harness source the
// replay of a counterexample.
package nd

import (
	"encoding/json"
	"fmt"
	"os"
	"runtime"
	"time"
)

// Vector is the recorded sequence of values for native replay.
var (
	Vector   []uint64
	pos      int
	Failures []string
	Observed []string
	Covered  = map[string]bool{}
	// PanicNilValue is what PanicNil() reports natively (set by the replay driver).
	PanicNilValue = 1
)

// Load reads a vector from a JSON file ({"vector":[...]}).
func Load(path string) error {
	b, err := os.ReadFile(path)
	if err != nil {
		return err
	}
	var v struct {
		Vector []uint64 `json:"vector"`
	}
	if err := json.Unmarshal(b, &v); err != nil {
		return err
	}
	Reset(v.Vector)
	return nil
}

// Reset installs a new vector.
func Reset(v []uint64) {
	Vector, pos = v, 0
	Failures, Observed = nil, nil
	Covered = map[string]bool{}
}

type Exhausted struct{}

func next() uint64 {
	if pos >= len(Vector) {
		panic(Exhausted{})
	}
	v := Vector[pos]
	pos++
	return v
}

func Rune() rune              { return rune(int32(next())) }
func RuneASCII() rune         { return rune(int32(next())) }
func RuneIn(set string) rune  { return rune(int32(next())) }
func Byte() byte              { return byte(next()) }
func ByteIn(set string) byte  { return byte(next()) }
func Int64() int64            { return int64(next()) }
func Int() int                { return int(next()) }
func Uint64() uint64          { return next() }
func Uint() uint              { return uint(next()) }
func Bool() bool              { return next() != 0 }
func IntRange(lo, hi int) int { return int(next()) }
func Choice(n int) int        { return int(next()) }

// Str returns a string of n arbitrary ASCII bytes.
func Str(n int) string {
	b := make([]byte, n)
	for i := range b {
		b[i] = byte(next())
	}
	return string(b)
}

// StrIn returns a string of n bytes drawn from set.
func StrIn(n int, set string) string {
	b := make([]byte, n)
	for i := range b {
		b[i] = byte(next())
	}
	return string(b)
}

// AssumeFailed is panicked by Assume natively when the vector violates an
// assumption (which means the vector does not belong to this harness).
type AssumeFailed struct{}

func Assume(c bool) {
	if !c {
		panic(AssumeFailed{})
	}
}

func Assert(c bool, msg string) {
	if !c {
		Failures = append(Failures, msg)
	}
}

// Fail records an unconditional failure.
func Fail(msg string) { Failures = append(Failures, msg) }

func Cover(label string) { Covered[label] = true }
func Observe(s string)   { Observed = append(Observed, s) }

// Drain lets background goroutines run until they exit or block, and returns
// the number that are still alive. Under the engine this is exact; natively
// it sleeps briefly and counts the process's goroutines (harnesses compare
// with a count taken before the call under test).
func Drain() int {
	time.Sleep(30 * time.Millisecond)
	return settled()
}

// Goroutines reports the number of live goroutines besides the harness's own.
// Natively a goroutine that has signalled its end may still be unwinding, so
// the count is the minimum seen over a short settling time; a goroutine that
// is really still running or blocked stays counted.
func Goroutines() int { return settled() }

func settled() int {
	n := runtime.NumGoroutine() - 1
	for i := 0; i < 40 && n > 0; i++ {
		runtime.Gosched()
		time.Sleep(500 * time.Microsecond)
		if m := runtime.NumGoroutine() - 1; m < n {
			n = m
		}
	}
	return n
}
func Blocked() int    { return 0 }

// SchedMode(n): n >= 0 makes every scheduling decision a choice with at most
// n preemptions (engine only).
func SchedMode(n int)     {}
func SelectChoice(b bool) {}

// RaceMonitor switches the engine's happens-before data-race monitor on or
// off (natively a no-op: use `go test -race`).
func RaceMonitor(on bool) {}

// PanicNil reports the GODEBUG panicnil setting in force.
func PanicNil() int { return PanicNilValue }

// Symbolic reports whether the harness runs under the engine.
func Symbolic() bool { return false }
func Steps() int     { return 0 }

// And and Or combine conditions without short-circuit control flow (under the
// engine: one term instead of a fork).
func And(a, b bool) bool { return a && b }
func Or(a, b bool) bool  { return a || b }

// SetFS installs the file-system model used by the engine's os stubs. Natively
// the tree is materialised in a fresh temporary directory which becomes the
// working directory (the model's root is that directory, so absolute patterns
// are not replayable natively and harnesses avoid them).
func SetFS(fs interface{}) {
	if FSHook != nil {
		FSHook(fs)
	}
}

// FSHook is installed by the native replay driver.
var FSHook func(fs interface{})

// Concrete forces s to a concrete value (identity natively).
func Concrete(s string) string { return s }

func Report() string {
	return fmt.Sprintf("failures=%q", Failures)
}
