// Package fsmodel is the in-memory file system that stands in for the OS
// under the gosx engine (os.Lstat, os.Open, Readdirnames are redirected to
// it) and the oracle side of the pathname-expansion harnesses. Natively the
// same tree is materialised on disk for replay.
package fsmodel

import (
	"io/fs"
	"os"
	"path/filepath"
	"time"
)

// Info is the os.FileInfo the engine's os.Stat stub hands out.
type Info struct {
	N string
	D bool
}

func (i Info) Name() string       { return i.N }
func (i Info) Size() int64        { return 0 }
func (i Info) Mode() fs.FileMode  { return 0 }
func (i Info) ModTime() time.Time { return time.Time{} }
func (i Info) IsDir() bool        { return i.D }
func (i Info) Sys() interface{}   { return nil }

// Stat follows nothing but reports dangling links as missing (os.Stat semantics).
func Stat(fs *FS, path string) (os.FileInfo, bool) {
	n := resolve(fs, path)
	if n == nil || n.Kind == Dangling {
		return nil, false
	}
	return Info{N: n.Name, D: n.Kind == Dir}, true
}

// Kind of a directory entry.
const (
	File = iota
	Dir
	Dangling // symbolic link to nowhere: Lstat succeeds, it is not a directory
)

type Node struct {
	Name     string
	Kind     int
	Children []*Node
}

// FS is a tree with a current directory (a child path from the root).
type FS struct {
	Root *Node // Kind == Dir, Name == ""
	Cwd  *Node // must be a directory in the tree
}

func (n *Node) child(name string) *Node {
	for _, c := range n.Children {
		if c.Name == name {
			return c
		}
	}
	return nil
}

// resolve walks path; it returns the node or nil. A trailing slash (or an
// intermediate component) requires a directory.
func resolve(fs *FS, path string) *Node {
	if path == "" {
		return nil
	}
	cur := fs.Cwd
	i := 0
	if path[0] == '/' {
		cur = fs.Root
	}
	var stack []*Node // ancestors for ".." relative to the start are not modelled beyond the tree
	_ = stack
	for i < len(path) {
		// skip slashes
		for i < len(path) && path[i] == '/' {
			i++
		}
		if i >= len(path) {
			// trailing slash: must be a directory
			if cur.Kind != Dir {
				return nil
			}
			return cur
		}
		j := i
		for j < len(path) && path[j] != '/' {
			j++
		}
		name := path[i:j]
		i = j
		if cur.Kind != Dir {
			return nil
		}
		switch name {
		case ".":
			// stay
		case "..":
			cur = parentOf(fs.Root, cur)
		default:
			cur = cur.child(name)
			if cur == nil {
				return nil
			}
		}
	}
	return cur
}

func parentOf(root, n *Node) *Node {
	if n == root {
		return root
	}
	var find func(d *Node) *Node
	find = func(d *Node) *Node {
		for _, c := range d.Children {
			if c == n {
				return d
			}
			if c.Kind == Dir {
				if p := find(c); p != nil {
					return p
				}
			}
		}
		return nil
	}
	if p := find(root); p != nil {
		return p
	}
	return root
}

// Exists reports whether Lstat(path) succeeds.
func Exists(fs *FS, path string) bool {
	return resolve(fs, path) != nil
}

// IsDir reports whether path names a directory.
func IsDir(fs *FS, path string) bool {
	n := resolve(fs, path)
	return n != nil && n.Kind == Dir
}

// ReadDir returns the names in directory path (Open + Readdirnames).
func ReadDir(fs *FS, path string) ([]string, bool) {
	n := resolve(fs, path)
	if n == nil || n.Kind != Dir {
		return nil, false
	}
	names := make([]string, 0, len(n.Children))
	for _, c := range n.Children {
		names = append(names, c.Name)
	}
	return names, true
}

// Materialise creates the tree under dir on the real file system and returns
// the directory that corresponds to fs.Cwd.
func Materialise(fs *FS, dir string) (string, error) {
	cwd := dir
	var mk func(n *Node, path string) error
	mk = func(n *Node, path string) error {
		if n == fs.Cwd {
			cwd = path
		}
		for _, c := range n.Children {
			p := filepath.Join(path, c.Name)
			switch c.Kind {
			case Dir:
				if err := os.Mkdir(p, 0o755); err != nil {
					return err
				}
				if err := mk(c, p); err != nil {
					return err
				}
			case File:
				if err := os.WriteFile(p, nil, 0o644); err != nil {
					return err
				}
			case Dangling:
				if err := os.Symlink("/nonexistent-target-of-dangling-link", p); err != nil {
					return err
				}
			}
		}
		return nil
	}
	err := mk(fs.Root, dir)
	return cwd, err
}
