package h

import (
	"strings"

	"github.com/hattya/go.sh/ast"
	"github.com/hattya/go.sh/interp"
	"github.com/hattya/go.sh/pattern"
	"verifharness/fsmodel"
	"verifharness/nd"
)

// C15 — quoted text survives parsing and expansion unchanged.
//
// s is a string of symbolic runes; it is written into the source under one of
// the literal quotings, parsed with the real parser and expanded with the real
// Expand under an adversarial environment (IFS made of symbolic bytes, HOME,
// positional parameters, a directory whose files would match if any pathname
// expansion were applied). Exactly one field equal to s must come back.

// quoteSrc renders s under style; ok=false when the style cannot express s.
func quoteSrc(style int, s []rune) (src []rune, ok bool) {
	switch style {
	case 0: // single quotes
		src = append(src, '\'')
		for _, r := range s {
			if r == '\'' {
				return nil, false
			}
			src = append(src, r)
		}
		src = append(src, '\'')
	case 1: // double quotes, the four specials escaped
		src = append(src, '"')
		for _, r := range s {
			if r == '$' || r == '`' || r == '"' || r == '\\' {
				src = append(src, '\\')
			}
			src = append(src, r)
		}
		src = append(src, '"')
	case 2: // a backslash before each character
		for _, r := range s {
			if r == '\n' {
				return nil, false // backslash-newline is a line continuation
			}
			src = append(src, '\\', r)
		}
	case 3: // mixed: first character single-quoted, the rest double-quoted
		if len(s) == 0 {
			return nil, false
		}
		if s[0] == '\'' {
			return nil, false
		}
		src = append(src, '\'', s[0], '\'')
		rest, _ := quoteSrc(1, s[1:])
		src = append(src, rest...)
	}
	return src, true
}

func refPatternEscape(s string) string {
	var b strings.Builder
	for i := 0; i < len(s); i++ {
		c := s[i]
		if c == '?' || c == '*' || c == '[' || c == '\\' {
			b.WriteByte('\\')
		}
		b.WriteByte(c)
	}
	return b.String()
}

func c15(n int, ascii bool) { c15s(freeRunes(n, ascii), false, false) }

// C15_Path*: s over {a b \ / * .}: escaped separators and escaped
// backslashes in front of separators, in a directory where the paths spelled
// by s without its backslashes exist (a/b, a/a, b, "a\" as a directory).
func c15path(n int) {
	s := make([]rune, n)
	for i := range s {
		s[i] = nd.RuneIn("ab\\/*.")
	}
	c15s(s, true, false)
}

func C15_Path3() { c15path(3) }
func C15_Path4() { c15path(4) }
func C15_Path5() { c15path(5) }

func c15s(s []rune, tree, matchCheck bool) {
	n := len(s)
	style := nd.Choice(4)
	q, ok := quoteSrc(style, s)
	if !ok {
		nd.Assume(false)
	}
	src := append([]rune("x "), q...)
	cmds, _, err, _ := parseRunes(nil, src)
	nd.Assert(err == nil && len(cmds) == 1, "a quoted string parses")
	if err != nil || len(cmds) != 1 {
		return
	}
	sc, isCmd := cmds[0].(*ast.Cmd)
	if !isCmd {
		nd.Fail("a quoted argument parses as a simple command")
		return
	}
	simple, isSimple := sc.Expr.(*ast.SimpleCmd)
	if n == 0 && style == 2 {
		// nothing was written: there is no word
		return
	}
	if !isSimple || len(simple.Args) != 2 {
		nd.Fail("a quoted string is exactly one word")
		return
	}
	word := simple.Args[1]

	var sb strings.Builder
	for _, r := range s {
		sb.WriteRune(r)
	}
	want := sb.String()

	// adversarial environment
	env := interp.NewExecEnv("sh", "P1", "P2")
	env.Set("IFS", nd.Str(2))
	env.Set("HOME", "/home/u")
	env.Set("x", "VALUE")
	fs := &fsmodel.FS{Root: &fsmodel.Node{Kind: fsmodel.Dir}}
	fs.Cwd = fs.Root
	fs.Root.Children = []*fsmodel.Node{{Name: "zz", Kind: fsmodel.File}, {Name: "a", Kind: fsmodel.File}, {Name: "d", Kind: fsmodel.Dir}}
	if tree {
		fs.Root.Children = []*fsmodel.Node{
			{Name: "a", Kind: fsmodel.Dir, Children: []*fsmodel.Node{{Name: "b", Kind: fsmodel.File}, {Name: "a", Kind: fsmodel.Dir}, {Name: "\\b", Kind: fsmodel.File}}},
			{Name: "b", Kind: fsmodel.File},
			{Name: "a\\", Kind: fsmodel.Dir, Children: []*fsmodel.Node{{Name: "b", Kind: fsmodel.File}}},
			{Name: "ab", Kind: fsmodel.File},
		}
	}
	nd.SetFS(fs)

	mode := []interp.ExpMode{0, interp.Arith, interp.Assign, interp.Literal, interp.Pattern, interp.Quote}[nd.Choice(6)]
	got, xerr := env.Expand(word, mode)
	nd.Assert(xerr == nil, "expanding quoted text reports no error")
	if xerr != nil {
		return
	}
	nd.Assert(len(got) == 1, "quoted text yields exactly one field")
	if len(got) != 1 {
		return
	}
	if mode == interp.Pattern {
		nd.Cover("pattern")
		nd.Assert(got[0] == refPatternEscape(want), "in Pattern mode quoted characters are escaped so that they match only themselves")
		if !matchCheck {
			return
		}
		// ... and as a pattern the result matches s, the whole of s, and
		// nothing but s (small alphabets only: the pattern is symbolic)
		m, merr := pattern.Match([]string{got[0]}, pattern.Prefix|pattern.Largest, want)
		nd.Assert(merr == nil && m == want, "the Pattern-mode result matches the quoted text itself")
		if len(s) > 0 {
			// t = s with one character replaced by another one
			at := nd.Choice(len(s))
			c := nd.RuneIn("a1{}*?[\\é")
			nd.Assume(c != s[at])
			t := ""
			for k, r := range s {
				if k == at {
					r = c
				}
				t += string(r)
			}
			m, merr = pattern.Match([]string{got[0]}, pattern.Prefix|pattern.Largest, t)
			nd.Assert(merr == pattern.NoMatch || (merr == nil && m != t), "the Pattern-mode result matches nothing but the quoted text")
		}
	} else {
		nd.Cover("literal")
		nd.Assert(got[0] == want, "quoted text is unchanged by expansion")
	}
	nd.Observe(string(src))
	nd.Observe(got[0])
}

func C15_N1() { c15(1, false) }
func C15_N2() { c15(2, false) }
func C15_N3() { c15(3, true) }

// C15_Brace*: s over {a 1 2 { } ,}: text that is a repetition operator of the
// regular expression syntax the matcher is built on.
func c15brace(n int) {
	s := make([]rune, n)
	for i := range s {
		s[i] = nd.RuneIn("a12{},")
	}
	c15s(s, false, true)
}

func C15_Brace3() { c15brace(3) }
func C15_Brace4() { c15brace(4) }
func C15_Brace5() { c15brace(5) }
