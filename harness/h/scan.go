package h

import (
	"io"

	"github.com/hattya/go.sh/ast"
	"github.com/hattya/go.sh/interp"
	"github.com/hattya/go.sh/parser"
	"verifharness/nd"
)

// Scanner is an io.RuneScanner over a rune vector ("the source as an
// arbitrary buffer"): it counts reads, can start failing at a given index and
// remembers whether it was touched after being frozen.
type Scanner struct {
	R      []rune
	I      int
	Reads  int
	FailAt int   // >= 0: ReadRune fails with ErrInjected once I >= FailAt
	Once   bool  // the failure happens once (consuming nothing), then the reader recovers
	Err    error // the error of a failing read (nil: ErrInjected)
	Failed bool
	Frozen bool // set by the harness when the call has returned
	Late   int  // reads/unreads after Frozen
	MaxI   int
}

type injected struct{}

func (injected) Error() string { return "injected read error" }

// ErrInjected is the error returned by a failing Scanner.
var ErrInjected error = injected{}

func NewScanner(r []rune) *Scanner { return &Scanner{R: r, FailAt: -1} }

func (s *Scanner) ReadRune() (rune, int, error) {
	if s.Frozen {
		s.Late++
	}
	s.Reads++
	if s.FailAt >= 0 && s.I >= s.FailAt && !(s.Once && s.Failed) {
		s.Failed = true
		if s.Err != nil {
			return 0, 0, s.Err
		}
		return 0, 0, ErrInjected
	}
	if s.I >= len(s.R) {
		return 0, 0, io.EOF
	}
	r := s.R[s.I]
	s.I++
	if s.I > s.MaxI {
		s.MaxI = s.I
	}
	return r, 1, nil
}

func (s *Scanner) UnreadRune() error {
	if s.Frozen {
		s.Late++
	}
	if s.I > 0 {
		s.I--
	}
	return nil
}

// Rest returns the unread runes.
func (s *Scanner) Rest() []rune { return s.R[s.I:] }

// freeRunes returns n fresh symbolic runes over the domain D (ASCII plus the
// non-ASCII representatives), or over ASCII only.
func freeRunes(n int, ascii bool) []rune {
	r := make([]rune, n)
	for i := range r {
		if ascii {
			r[i] = nd.RuneASCII()
		} else {
			r[i] = nd.Rune()
		}
	}
	return r
}

func parseRunes(env *interp.ExecEnv, r []rune) ([]ast.Command, []*ast.Comment, error, *Scanner) {
	s := NewScanner(r)
	cmds, comments, err := parser.ParseCommands(env, "src", s)
	// Let whatever the call left behind run until it exits or blocks, so that a
	// background goroutine that would bring the process down after the return is
	// seen by the engine (natively this is a race with process exit).
	s.Frozen = true
	nd.Drain()
	return cmds, comments, err, s
}

// Templates is the corpus of concrete programs that put the lexer and the
// grammar into each of their states; harnesses punch symbolic holes into them.
// ErrTemplates are ill-formed programs whose error is found by the parser
// while the lexer still has work to do on the same line (a pending
// here-document, a nested substitution, a trailing comment).
var ErrTemplates = []string{
	"a <<E; ;\nx\nE\nb\n",
	"a <<E ;;\nx\nE\n",
	"{ a <<E && ;\nx\nE\n",
	"a $(b <<E; ;\nx\nE\n)",
	"a <<E | |\nx\n",
	"a <<E > ;\nx\nE\n",
	"a ; ; # c\nb\n",
	"a ) 'b\n",
	"a | | $(b\n",
	"a && ; `b`\n",
}

var Templates = []string{
	"a b c",
	"a=1 b=2 c d",
	"a <f >g 2>&1",
	"a >>f <>g >|h <&3",
	"! a | b | c",
	"a && b || c",
	"a; b & c",
	"(a; b)",
	"{ a; b; }",
	"((1 + 2))",
	"for i in a b; do c; done",
	"for i do c; done",
	"for ij in a; do b; done",
	"fg() { a; }",
	"x1=a y_2=b c",
	"for i\ndo\nc\ndone",
	"case x in a) b;; c|d) e;; esac",
	"case x in (a) b; esac",
	"case x in\na)\nb\n;;\nesac",
	"if a; then b; elif c; then d; else e; fi",
	"if a\nthen\nb\nfi",
	"while a; do b; done",
	"until a; do b; done",
	"f() { a; }",
	"f() (a)",
	"a 'b c' \"d $e\" \\f",
	"a $x ${y} ${z:-w} ${#v} ${u%%p}",
	"a ${x:=y} ${x:?y} ${x:+y} ${x#y} ${x##y} ${x%y}",
	"a $(b c) `d e`",
	"a $((1+2)) b",
	"a <<E\nx $y\nE\n",
	"a <<E\nE\n",
	"a <<E\nfoo\n\\\nbar $x\n\\\nbaz\nE\n",
	"a <<-A <<B\n\tx\n\tA\n\tB\ny\nB\n",
	"{ # one\n\ta $(b # two\n\t) # three\n}\n",
	"a <<E <<-F; b\nE\n\tF\n",
	"{ a <<E\nE\n}",
	"a \"$@$@\" \"${@}$*\" $*$@ \"$*$*\"",
	"((a +\n     -1))",
	"x $((1 -\n        -b))",
	"a <<-E\n\tx\nE\n",
	"a <<'E'\nx $y\nE\n",
	"a <<E; b <<F\n1\nE\n2\nF\n",
	"a | b <<E\nx\nE\n",
	"if a <<E\nx\nE\nthen b; fi",
	"a # c\n",
	"a \\\nb",
	"{ a; } >f",
	"(a) | (b)",
	"a &\n",
	"a=$(b) c",
	"x=~/a:~b",
	"a \"$(b \"c\")\"",
	"a ${x:-$(b)}",
	"a $@ $* $# $? $- $$ $! $0 $1",
	"( (a) )",
	"( (a); b )",
	"a; ( (b) | c )",
	"x=\"\" y=''",
	"a \"\" '' b",
	"for i in; do a; done",
	"case x in esac",
	"f() { a; } >f 2>&1",
	"while a; do b; done <f | c",
	"a ${#*} ${#@} ${#-} ${*:-x} ${@:+y} \"${#*}\"",
	"a \"b\nc\\\"d \\$e\" f",
	"a <<E\nx\ny \\$z `w`\nE\n",
	"if a; b\nthen c\nfi",
	"until a; b\nc\ndo d\ndone",
	"while a & b\ndo c\ndone",
	"a <<\\A <<B\nx\nA\n$(c\nB\n)\nB\n",
	"((1 + 2)); ( (a))",
	"a $(b; c) `d | e` f",
	"case x in a) b; ;; c) d; ;; esac",
	"case x in a) b & ;; c) d;; esac",
	"if a; b; then c; d; fi",
	"while a; b; do c; done",
}
