// replay runs harnesses natively on recorded nd vectors.
//
// usage: replay file.json
// file.json: {"cases":[{"harness":"C01_F3","vector":[...],"panicnil":1}, ...]}
// For every case it prints
//
//	CASE <n> <harness>
//	OBS <json string>        (one per nd.Observe)
//	FAILURE <json string>    (one per failed nd.Assert)
//	END <n> failures=<k>
//
// A panic or a hang is left to the Go runtime / the caller's timeout, so that
// process death is observable exactly as a user would see it.
package main

import (
	"encoding/json"
	"fmt"
	"os"

	"verifharness/fsmodel"
	"verifharness/nd"
)

type kase struct {
	Harness  string   `json:"harness"`
	Vector   []uint64 `json:"vector"`
	PanicNil int      `json:"panicnil"`
}

func main() {
	b, err := os.ReadFile(os.Args[1])
	if err != nil {
		fmt.Println("ERROR", err)
		os.Exit(3)
	}
	var f struct {
		Cases []kase `json:"cases"`
	}
	if err := json.Unmarshal(b, &f); err != nil {
		fmt.Println("ERROR", err)
		os.Exit(3)
	}
	// every case runs in its own empty directory (the engine's default file
	// system is empty); SetFS materialises a model tree there
	home, _ := os.Getwd()
	nd.FSHook = func(fs interface{}) {
		if m, ok := fs.(*fsmodel.FS); ok {
			wd, _ := os.Getwd()
			cwd, err := fsmodel.Materialise(m, wd)
			if err != nil {
				fmt.Println("ERROR materialise:", err)
				os.Exit(3)
			}
			os.Chdir(cwd)
		}
	}
	bad := 0
	for n, c := range f.Cases {
		os.Chdir(home)
		dir, err := os.MkdirTemp("", "gosx-replay-")
		if err != nil {
			fmt.Println("ERROR", err)
			os.Exit(3)
		}
		os.Chdir(dir)
		fn := registry[c.Harness]
		if fn == nil {
			fmt.Println("ERROR no harness", c.Harness)
			os.Exit(3)
		}
		fmt.Println("CASE", n, c.Harness)
		nd.Reset(c.Vector)
		nd.PanicNilValue = c.PanicNil
		runOne(fn)
		for _, o := range nd.Observed {
			j, _ := json.Marshal(o)
			fmt.Println("OBS", string(j))
		}
		for _, m := range nd.Failures {
			j, _ := json.Marshal(m)
			fmt.Println("FAILURE", string(j))
		}
		fmt.Printf("END %d failures=%d\n", n, len(nd.Failures))
		os.Chdir(home)
		os.RemoveAll(dir)
		if len(nd.Failures) > 0 {
			bad++
		}
	}
	if bad > 0 {
		os.Exit(1)
	}
}

func runOne(fn func()) {
	defer func() {
		if r := recover(); r != nil {
			switch r.(type) {
			case nd.AssumeFailed:
				fmt.Println("ASSUME-FAILED")
				return
			case nd.Exhausted:
				fmt.Println("VECTOR-EXHAUSTED")
				return
			}
			panic(r)
		}
	}()
	fn()
}
