package h

import (
	"github.com/hattya/go.sh/ast"
	"github.com/hattya/go.sh/parser"
	"verifharness/nd"
)

// C03 — ill-formed programs are rejected with a located syntax error.
//
// (A) programs that are ill-formed by construction (a generated well-formed
// program with its closing or opening reserved word deleted, an operator
// duplicated, an operator or a stray closer at the start, a binary operator at
// the end; a list of hand-written ill-formed programs) must be rejected.
// (B) intrinsic, on every rejecting path of F(N) and of the templates with a
// symbolic hole: a syntactic failure is a parser.Error with the caller's name
// whose line:column lies inside the text consumed so far and designates the
// start of a token (not a blank) unless it is the end of the consumed text.
// (C) on every accepting path no consumed token is dropped: the printed AST
// has as many non-layout characters as the consumed source.

func checkErrorLocation(src []rune, s *Scanner, err error) {
	pe, ok := err.(parser.Error)
	if !ok {
		nd.Fail("a syntactic failure is reported as a parser.Error")
		return
	}
	nd.Assert(pe.Name == "src", "the error carries the caller's name")
	m := newSrcMap(src)
	idx := m.index(pe.Pos)
	if idx < 0 {
		nd.Fail("the error position lies outside the source")
		return
	}
	nd.Assert(idx <= s.MaxI, "the error position lies inside the text consumed so far")
	if idx < len(src) && idx < s.MaxI {
		r := src[idx]
		// (a newline is a token of the grammar; blanks are not). The delimiter
		// line of a <<- here-document starts with its leading tabs: column 1
		// of a tab-indented line is the start of that construct.
		tabLine := false
		if pe.Pos.Col() == 1 {
			j := idx
			for j < len(src) && src[j] == '\t' {
				j++
			}
			tabLine = j > idx && j < len(src) && src[j] != ' ' && src[j] != '\n'
		}
		if !tabLine {
			nd.Assert(!nd.Or(r == ' ', r == '\t'), "the error position designates the start of a token, not a blank")
		}
	}
}

// nonLayout counts the characters of text that are not blanks, newlines,
// semicolons, or part of a backslash-newline pair.
func nonLayout(text []rune) int {
	n := 0
	for i := 0; i < len(text); i++ {
		r := text[i]
		if r == '\\' && i+1 < len(text) {
			if text[i+1] == '\n' {
				i++ // line continuation
				continue
			}
			n += 2 // an escaped character
			i++
			continue
		}
		if r == ' ' || r == '\t' || r == '\n' || r == ';' {
			continue
		}
		n++
	}
	return n
}

func checkConservation(src []rune, s *Scanner, cmds []ast.Command, comments []*ast.Comment) {
	out, perr := PrintCmds(nil, cmds)
	if perr != nil {
		return
	}
	consumed := src[:s.MaxI]
	want := nonLayout(consumed)
	for _, c := range comments {
		want -= 1 + nonLayout([]rune(c.Text))
	}
	// the printer does not reproduce the optional "(" before a case pattern
	WalkNodes(cmds, func(n ast.Node, kind string) {
		if ci, ok := n.(*ast.CaseItem); ok && !ci.Lparen.IsZero() {
			want--
		}
	})
	got := nonLayout([]rune(out))
	nd.Assert(got == want, "every consumed token is present in the result (nothing is silently dropped)")
}

func hasEmptyComment(src []rune) bool {
	for i, r := range src {
		if r == '#' && (i+1 == len(src) || src[i+1] == '\n') {
			return true
		}
	}
	return false
}

// hashAndBackslash: a backslash inside a comment is not an escape; such
// sources are left out of the character count.
func hashAndBackslash(src []rune) bool {
	h, b := false, false
	for _, r := range src {
		if r == '#' {
			h = true
		}
		if r == '\\' {
			b = true
		}
	}
	return h && b
}

func c03Intrinsic(src []rune) {
	s := NewScanner(src)
	cmds, comments, err := parser.ParseCommands(nil, "src", s)
	nd.Drain()
	nd.Observe(string(src))
	if err != nil {
		nd.Cover("rejected")
		checkErrorLocation(src, s, err)
		return
	}
	nd.Cover("accepted")
	if hasEmptyComment(src) || hasLoneBackslash(cmds) || hashAndBackslash(src) {
		return
	}
	checkConservation(src, s, cmds, comments)
}

func C03_Loc_F2() { c03Intrinsic(freeRunes(2, false)) }
func C03_Loc_F3() { c03Intrinsic(freeRunes(3, false)) }
func C03_Loc_T1() { c03Intrinsic(holeTemplate()) }

// ---- (A) ill-formed by construction

var c03Negative = []string{
	"if a; then b", "if a; b; fi", "if; then b; fi", "if a; then; fi", "then a", "fi", "a; fi; b", "if a; then b; else; fi",
	"if a; then b; elif; then c; fi", "if a; then b; fi fi", "else a", "elif a; then b; fi",
	"while a; do b", "while a; b; done", "while; do b; done", "do a; done", "done", "until a; done",
	"for; do a; done", "for i in a; b; done", "for 1 in a; do b; done", "for i in a; do b", "for i in a do b; done", "for i j; do a; done",
	"case x in a) b;;", "case x a) b;; esac", "case in a) b;; esac", "esac", "case x in a b) c;; esac", "case x in ) b;; esac",
	"{ a;", "{ a }", "}", "a; }", "{ }", "( a", "a )", "( )", "()", "(a))", "((a)",
	"a |", "| a", "a | | b", "a &&", "&& a", "a && && b", "a ||", "|| a", "a & & b", "a ; ; b", "; a", "& a", "a ;; b", ";;",
	"a >", "a > ;", "a 2>", "> ", "a <<", "a >& ;", "a < | b",
	"a 'b", "a \"b", "a \"$(b\"", "a $(b", "a ${b", "a `b", "a $((1", "a ${b:}", "a ${}", "a ${b!c}",
	"f() a", "f( { a; }", "f() ", "f() { a;", "1f() { a; }", "! ", "! ! a", "a | ! b",
	"a <<E\nx\n", "a <<E <<F\nx\nE\n",
}

func c03Reject(src []rune) {
	s := NewScanner(src)
	var err error
	// an ill-formed program may begin with complete commands: parse the whole stream
	for n := 0; n < 64; n++ {
		_, _, err = parser.ParseCommands(nil, "src", s)
		nd.Drain()
		if err != nil || s.I >= len(s.R) {
			break
		}
	}
	nd.Observe(string(src))
	nd.Assert(err != nil, "an ill-formed program is rejected")
	if err != nil {
		if _, ok := err.(parser.Error); ok {
			checkErrorLocation(src, s, err)
		}
	}
}

func C03_Negative() { c03Reject([]rune(c03Negative[nd.Choice(len(c03Negative))])) }

func isOpenerWord(t string) bool {
	switch t {
	case "if", "while", "until", "for", "case", "{":
		return true
	}
	return false
}

func isCloserWord(t string) bool {
	switch t {
	case "fi", "done", "esac", "}", "then", "do":
		return true
	}
	return false
}

func isDupOperator(t string) bool {
	switch t {
	case "|", "&&", "||", ";", "&", ";;":
		return true
	}
	return false
}

// C03_Damage: a generated well-formed single-line program with one damage that
// makes it ill-formed by construction.
func C03_Damage() {
	g := &gen{budget: 2, leaf: "a", name: "v"}
	text, _ := g.seq(2, false)
	toks := fieldsOf(text)
	var cand []int
	kind := nd.Choice(5)
	switch kind {
	case 0: // delete a closing reserved word
		for i, t := range toks {
			if isCloserWord(t) {
				cand = append(cand, i)
			}
		}
	case 1: // delete an opening reserved word
		for i, t := range toks {
			if t == "case" && i+3 < len(toks) && toks[i+3] == "esac" {
				continue // "x in esac" is a simple command
			}
			if isOpenerWord(t) {
				cand = append(cand, i)
			}
		}
	case 2: // duplicate an operator
		for i, t := range toks {
			if isDupOperator(t) {
				cand = append(cand, i)
			}
		}
	case 3, 4:
		cand = []int{0}
	}
	if len(cand) == 0 {
		nd.Assume(false)
	}
	k := cand[nd.Choice(len(cand))]
	var out []string
	switch kind {
	case 0, 1:
		out = append(append(out, toks[:k]...), toks[k+1:]...)
		nd.Cover("deleted-reserved-word")
	case 2:
		out = append(append(append(out, toks[:k+1]...), toks[k]), toks[k+1:]...)
		nd.Cover("duplicated-operator")
	case 3: // an operator or a stray closer at the start
		pre := []string{"|", "&&", "||", ";", "&", ")", "}", "fi", "done", "esac", "then", "do", "else", "elif", ";;"}[nd.Choice(15)]
		out = append([]string{pre}, toks...)
		nd.Cover("stray-at-start")
	case 4: // a binary operator at the end
		post := []string{"|", "&&", "||"}[nd.Choice(3)]
		out = append(append(out, toks...), post)
		nd.Cover("operator-at-end")
	}
	c03Reject([]rune(joinTokens(out)))
}

func C03_Loc_F4() { c03Intrinsic(freeRunes(4, true)) }

// NegativeSources exposes the hand-written ill-formed programs.
func NegativeSources() []string { return c03Negative }

// c03Ref compares the parser with the independent recogniser refparse on the
// first command line of src. mode 3: whatever the recogniser does not classify
// as a complete command must be rejected (C03). mode 2: a complete command must
// be accepted and consumed exactly (the converse, C02 / C07). mode 5: both.
func c03Ref(src []rune, mode int) {
	if contInHeredoc(src) {
		nd.Assume(false) // continuations inside words / here-documents: outside the recogniser
	}
	s := NewScanner(src)
	_, _, err := parser.ParseCommands(nil, "src", s)
	nd.Drain()
	v, end := RefParse(src)
	nd.Observe(string(src))
	if v == RefComplete {
		nd.Cover("ref-complete")
		if mode == 2 || mode == 5 {
			nd.Assert(err == nil, "a command the reference recogniser accepts is accepted")
			if err == nil {
				nd.Assert(s.I == end, "the call consumes exactly the command the recogniser delimits")
			}
		}
		return
	}
	nd.Cover("ref-rejects")
	if mode == 3 || mode == 5 {
		nd.Assert(err != nil, "input the reference recogniser classifies as ill-formed or incomplete is rejected")
	}
}

func C03_Ref_F2() { c03Ref(freeRunes(2, false), 3) }
func C03_Ref_F3() { c03Ref(freeRunes(3, false), 3) }
func C03_Ref_F4() { c03Ref(freeRunes(4, true), 3) }
func C03_Ref_T1() { c03Ref(holeTemplate(), 3) }
func C02_Ref_F2() { c03Ref(freeRunes(2, false), 2) }
func C02_Ref_F3() { c03Ref(freeRunes(3, false), 2) }
func C02_Ref_F4() { c03Ref(freeRunes(4, true), 2) }
func C02_Ref_T1() { c03Ref(holeTemplate(), 2) }

// C03_Ref_Gen: the recogniser against the derivation generator (two
// independent oracles) and against the parser: a generated single-line
// derivation is Complete for the recogniser and accepted by the parser.
func C03_Ref_Gen() {
	g := &gen{budget: 2}
	g.leaf = string(nd.RuneIn("a9_-/é"))
	g.name = string(nd.RuneIn("aZ_"))
	text, _ := g.seq(2, false)
	src := []rune(text)
	nd.Observe(text)
	v, end := RefParse(src)
	s := NewScanner(src)
	_, _, err := parser.ParseCommands(nil, "src", s)
	nd.Drain()
	if g.arithIn {
		return // KF-C02-arith-in-parentheses
	}
	nd.Assert(v == RefComplete && end == len(src), "the recogniser accepts every generated derivation")
	nd.Assert(err == nil && s.I == len(src), "the parser accepts every generated derivation")
}

// C03_Prefix / C02_Prefix: every prefix of every template, error template and
// here-document site (programs cut off in the middle of a construct), the
// recogniser being the oracle in both directions.
func prefixSource() []rune {
	var all []string
	all = append(all, Templates...)
	all = append(all, ErrTemplates...)
	for _, st := range c08Sites {
		text := st.line
		for i := range st.ops {
			text += "x $y\n" + st.delims[i] + "\n"
		}
		all = append(all, text+st.tail)
	}
	t := []rune(all[nd.Choice(len(all))])
	k := nd.Choice(len(t) + 1)
	return t[:k]
}

func C03_Prefix() { c03Ref(prefixSource(), 3) }
func C02_Prefix() { c03Ref(prefixSource(), 2) }

// C03_Mut / C02_Mut: every single-token deletion, duplication, adjacent swap
// and insertion (of a multi-character operator or reserved word, or of one
// symbolic character over D) applied to a generated
// well-formed program; the recogniser classifies the result and the parser
// must agree (mode 3: not complete => rejected; mode 2: complete => accepted
// and consumed exactly).
var mutInserts = []string{"&&", "if", "then", "fi", "do", "done", "esac", "in", ";;", ">>", "<<E", "((", "))", "$(", "${"}

func mutSource(budget int) []rune {
	g := &gen{budget: budget, leaf: "a", name: "v"}
	text, _ := g.seq(2, false)
	toks := fieldsOf(text)
	if len(toks) == 0 {
		nd.Assume(false)
	}
	k := nd.Choice(len(toks))
	var out []string
	switch nd.Choice(4) {
	case 0:
		out = append(append(out, toks[:k]...), toks[k+1:]...)
		nd.Cover("deletion")
	case 1:
		out = append(append(append(out, toks[:k+1]...), toks[k]), toks[k+1:]...)
		nd.Cover("duplication")
	case 2:
		if k+1 >= len(toks) {
			nd.Assume(false)
		}
		out = append(out, toks...)
		out[k], out[k+1] = out[k+1], out[k]
		nd.Cover("swap")
	case 3:
		var ins string
		if c := nd.Choice(len(mutInserts) + 1); c < len(mutInserts) {
			ins = mutInserts[c]
		} else {
			ins = string(nd.Rune()) // any single character over D as a token of its own
		}
		out = append(append(append(out, toks[:k]...), ins), toks[k:]...)
		nd.Cover("insertion")
	}
	if g.arithIn {
		nd.Assume(false) // KF-C02-arith-in-parentheses
	}
	return []rune(joinTokens(out))
}

func C03_Mut1() { c03Ref(mutSource(1), 5) }
func C03_Mut2() { c03Ref(mutSource(2), 5) }
