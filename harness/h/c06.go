package h

import (
	"strconv"

	"github.com/hattya/go.sh/interp"
	"github.com/hattya/go.sh/parser"
	"verifharness/nd"
)

// C06 — results are schedule-independent; nothing keeps running after return.
//
// The schedule is a variable: in schedule mode every scheduling point of the
// engine's baton scheduler (channel operations, select, mutex, atomics,
// goroutine start and exit) where more than one goroutine can run is an
// engine-enumerated choice, bounded by a number of preemptions. Each input is
// parsed once under the canonical schedule and once under the chosen one; the
// results must agree, and when the call returns nothing it started may be
// alive, touch the reader later, or stay blocked forever.

var c06Sources = []string{
	"a b",
	"a | b; c",
	"if a; then b; fi",
	"a )",
	"a | | b",
	"a | | $(",
	"a ; ; 'b",
	"a <<E\nx\nE\n",
	"a <<E; b <<F\n1\nE\n2\nF\n",
	"a $(b `c`) d",
	"a $(b",
	"a ${x",
	"( a",
	"a &&",
	"a && ; # c",
	"a ; ; # c\nb",
	"a ) # c",
	"a # c\nb",
}

func c06Parse(src []rune, preempt int) {
	s0 := NewScanner(src)
	cmds0, comm0, err0 := parser.ParseCommands(nil, "src", s0)
	used0 := s0.I
	nd.Drain()

	nd.SchedMode(preempt)
	nd.RaceMonitor(true)
	s1 := NewScanner(src)
	before := nd.Goroutines()
	cmds1, comm1, err1 := parser.ParseCommands(nil, "src", s1)
	used1 := s1.I
	alive := nd.Goroutines() - before
	// the caller uses the results: these reads must be ordered after every
	// write of the goroutines the call started
	nresults := len(cmds1) + len(comm1)
	_ = nresults
	nd.RaceMonitor(false)
	nd.SchedMode(-1)
	nd.Observe(string(src))

	nd.Assert(alive <= 0, "when ParseCommands returns no goroutine started by it is still running")
	s1.Frozen = true
	left := nd.Drain() - before
	nd.Assert(s1.Late == 0, "no goroutine touches the source reader after ParseCommands returned")
	nd.Assert(left <= 0, "no goroutine started by ParseCommands stays blocked forever")

	if errStr(err1) != errStr(err0) {
		nd.Observe(errStr(err0) + " <> " + errStr(err1))
	}
	if Skel(cmds1) != Skel(cmds0) {
		nd.Observe(Skel(cmds0) + " <> " + Skel(cmds1))
	}
	nd.Assert(errStr(err1) == errStr(err0), "the error is the same under every interleaving")
	nd.Assert(Skel(cmds1) == Skel(cmds0), "the commands are the same under every interleaving")
	nd.Assert(commentsStr(comm1) == commentsStr(comm0), "the comments are the same under every interleaving")
	nd.Assert(used1 == used0, "the amount of input consumed is the same under every interleaving")
}

func C06_Err_P1()   { c06Parse([]rune(ErrTemplates[nd.Choice(len(ErrTemplates))]), 1) }
func C06_Err_P2()   { c06Parse([]rune(ErrTemplates[nd.Choice(len(ErrTemplates))]), 2) }
func C06_Parse_P1() { c06Parse([]rune(c06Sources[nd.Choice(len(c06Sources))]), 1) }
func C06_Parse_P2() { c06Parse([]rune(c06Sources[nd.Choice(len(c06Sources))]), 2) }
func C06_Parse_P3() { c06Parse([]rune(c06Sources[nd.Choice(len(c06Sources))]), 3) }
func C06_Parse_F2() { c06Parse(freeRunes(2, true), 1) }

var c06Exprs = []string{
	"1 + 2",
	"x = 3, 1",
	"x = 1 / 0",
	"(x = 2) + (y = 08)",
	"08 + 09",
	"1 +",
	"x = 2 @ y = 3",
	"a++ + 1z",
	"1 ? x = 1 : 1 / 0",
}

func c06Eval(expr string, preempt int) {
	e0 := interp.NewExecEnv("sh")
	e0.Set("a", "5")
	n0, err0 := e0.Eval(expr)
	nd.Drain()

	nd.SchedMode(preempt)
	nd.RaceMonitor(true)
	e1 := interp.NewExecEnv("sh")
	e1.Set("a", "5")
	before := nd.Goroutines()
	n1, err1 := e1.Eval(expr)
	alive := nd.Goroutines() - before
	nd.RaceMonitor(false)
	nd.SchedMode(-1)
	nd.Observe(expr)

	nd.Assert(alive <= 0, "when Eval returns no goroutine started by it is still running")
	left := nd.Drain() - before
	nd.Assert(left <= 0, "no goroutine started by Eval stays blocked forever")
	if errStr(err1) != errStr(err0) || n1 != n0 {
		nd.Observe(errStr(err0) + " " + strconv.Itoa(n0) + " <> " + errStr(err1) + " " + strconv.Itoa(n1))
	}
	nd.Assert(errStr(err1) == errStr(err0), "Eval reports the same error under every interleaving")
	nd.Assert(n1 == n0, "Eval returns the same value under every interleaving")
	for _, name := range []string{"a", "x", "y"} {
		v0, s0 := e0.Get(name)
		v1, s1 := e1.Get(name)
		nd.Assert(s0 == s1 && v0.Value == v1.Value, "Eval leaves the same variables under every interleaving")
	}
}

func C06_Eval_P1() { c06Eval(c06Exprs[nd.Choice(len(c06Exprs))], 1) }
func C06_Eval_P2() { c06Eval(c06Exprs[nd.Choice(len(c06Exprs))], 2) }
func C06_Eval_P3() { c06Eval(c06Exprs[nd.Choice(len(c06Exprs))], 3) }

var _ = strconv.Itoa

// C06_Fault_P*: the source fails (persistently) at a position chosen by the
// engine while the parser may already have rejected a token: which error is
// returned must not depend on the interleaving (and it is the read error).
func c06Fault(preempt int) {
	srcs := []string{"| ", "a | | ", "a && || ", "if a; then b; fi | && ", "a; ; ", "a <<E ; ;\nx\n", "$(a | | ", "a ) `b"}
	src := []rune(srcs[nd.Choice(len(srcs))])
	failAt := nd.Choice(len(src) + 1)
	s0 := NewScanner(src)
	s0.FailAt = failAt
	_, _, err0 := parser.ParseCommands(nil, "src", s0)
	used0 := s0.I
	nd.Drain()

	nd.SchedMode(preempt)
	nd.RaceMonitor(true)
	s1 := NewScanner(src)
	s1.FailAt = failAt
	before := nd.Goroutines()
	_, _, err1 := parser.ParseCommands(nil, "src", s1)
	used1 := s1.I
	alive := nd.Goroutines() - before
	nd.RaceMonitor(false)
	nd.SchedMode(-1)
	nd.Observe(string(src) + " @" + itoa(failAt))
	nd.Assert(alive <= 0, "when ParseCommands returns no goroutine started by it is still running")
	nd.Drain()
	if errStr(err1) != errStr(err0) {
		nd.Observe(errStr(err0) + " <> " + errStr(err1))
	}
	nd.Assert(errStr(err1) == errStr(err0), "the error is the same under every interleaving (failing source)")
	nd.Assert(used1 == used0, "the amount of input consumed is the same under every interleaving (failing source)")
	if s1.Failed {
		nd.Assert(err1 != nil && isErr(err1, ErrInjected), "a read fault is reported as that fault under every interleaving")
	}
}

func C06_Fault_P1() { c06Fault(1) }
func C06_Fault_P2() { c06Fault(2) }
