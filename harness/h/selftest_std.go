package h

import (
	"bytes"
	"errors"
	"fmt"
	"sort"
	"strconv"
	"strings"
	"sync"
	"sync/atomic"
	"unicode"
	"unicode/utf8"

	"verifharness/nd"
)

// Selftest_Std*: translation validation of the std boundary. A change to
// go.sh may use standard-library functions the pinned code does not; each
// group below calls a family of them on concrete and on symbolic arguments and
// records the results, which the driver compares with a native run of the same
// vector (engine vs native). Groups are separate so that one unsupported
// function does not hide the others.

func obs(vs ...interface{}) { nd.Observe(fmt.Sprint(vs...)) }

func Selftest_StdStrings() {
	s := "  a,b;c  "
	t := nd.StrIn(2, "ab, ")
	switch nd.Choice(12) {
	case 0:
		obs(strings.TrimSpace(s), "|", strings.TrimSpace(t), "|", strings.TrimLeft(t, " a"), "|", strings.TrimRight(t, ", "), "|", strings.Trim(t, "a"))
	case 1:
		obs(strings.TrimPrefix(t, "a"), "|", strings.TrimSuffix(t, "b"), "|", strings.HasPrefix(t, "ab"), strings.HasSuffix(t, " "))
	case 2:
		obs(strings.Fields(s), len(strings.Fields(t)), strings.Split("a,b,c", ","), len(strings.Split(t, ",")), strings.SplitN("a,b,c", ",", 2))
	case 3:
		a, b, ok := strings.Cut(t, ",")
		obs(a, "|", b, ok)
	case 4:
		obs(strings.Map(func(r rune) rune {
			if r == 'a' {
				return 'A'
			}
			return r
		}, t), strings.IndexFunc(t, unicode.IsSpace), strings.LastIndex(t, "a"), strings.LastIndexByte(t, 'b'), strings.LastIndexAny(t, ", "))
	case 5:
		obs(strings.ToUpper(t), strings.ToLower("ÀB"), strings.ReplaceAll(t, "a", "xx"), strings.Replace(t, "a", "y", 1), strings.Count(t, "a"))
	case 6:
		obs(strings.NewReplacer("a", "1", "b", "2").Replace(t), strings.Compare(t, "ab"), strings.ContainsAny(t, ",;"), strings.Contains(t, "ab"), strings.EqualFold(t, "AB"))
	case 7:
		obs(strings.Index(t, "b"), strings.IndexByte(t, ','), strings.IndexRune(t, 'b'), strings.IndexAny(t, "b,"), strings.ContainsRune(t, ' '), strings.Repeat(t, 2), strings.Join([]string{t, "x", t}, "-"))
	case 8:
		var b strings.Builder
		b.WriteString(t)
		b.WriteByte('!')
		b.WriteRune('é')
		fmt.Fprintf(&b, "%d%s", 7, t)
		obs(b.String(), b.Len())
	case 9:
		var b bytes.Buffer
		b.WriteString(t)
		b.WriteByte('!')
		b.WriteRune('世')
		b.Write([]byte("xy"))
		obs(b.String(), b.Len(), bytes.Contains(b.Bytes(), []byte("!")), bytes.IndexByte(b.Bytes(), '!'))
	case 10:
		r := strings.NewReader(t + "é")
		c1, n1, e1 := r.ReadRune()
		_ = r.UnreadRune()
		c2, _, _ := r.ReadRune()
		obs(c1, n1, e1, c2, r.Len())
	case 11:
		obs(strings.Title("ab cd"), strings.TrimFunc(t, unicode.IsSpace), strings.FieldsFunc(t, func(r rune) bool { return r == ',' }), strings.SplitAfter("a,b", ","))
	}
}

func Selftest_StdConv() {
	t := nd.StrIn(2, "0159-a")
	n := nd.IntRange(-3, 200)
	switch nd.Choice(8) {
	case 0:
		v, err := strconv.Atoi(t)
		obs(v, err == nil)
	case 1:
		v, err := strconv.ParseInt(t, 0, 64)
		u, err2 := strconv.ParseUint(t, 10, 8)
		obs(v, err == nil, u, err2 == nil)
	case 2:
		obs(strconv.Itoa(n), strconv.FormatInt(int64(n), 16), string(strconv.AppendInt(nil, int64(n), 10)), strconv.Quote(t), strconv.QuoteRune('é'))
	case 3:
		b, err := strconv.ParseBool("true")
		u, err2 := strconv.Unquote("\"a\\tb\"")
		obs(b, err, u, err2)
	case 4:
		obs(fmt.Sprintf("%d|%5d|%-3d|%x|%q|%v|%s|%c|%U|%t|%T|%08b|%+d", n, n, n, n, t, t, t, 'é', 'é', true, n, 5, n))
	case 5:
		obs(fmt.Sprintf("%v %v %+v %#v %v", []string{t, "b"}, map[string]int{"a": 1}, struct{ A int }{n}, t, errors.New("e")))
	case 6:
		obs(utf8.RuneCountInString(t+"é世"), utf8.ValidString(t), utf8.RuneLen('世'), utf8.RuneError, string(utf8.AppendRune(nil, 'é')), utf8.FullRuneInString("\xe4"))
	case 7:
		r, size := utf8.DecodeRuneInString(t + "é")
		r2, size2 := utf8.DecodeLastRuneInString("aé")
		buf := make([]byte, 4)
		k := utf8.EncodeRune(buf, '世')
		obs(r, size, r2, size2, k, buf[:k], utf8.ValidRune(0xD800))
	}
}

type byLen []string

func (b byLen) Len() int           { return len(b) }
func (b byLen) Less(i, j int) bool { return len(b[i]) < len(b[j]) }
func (b byLen) Swap(i, j int)      { b[i], b[j] = b[j], b[i] }

type myErr struct{ code int }

func (e *myErr) Error() string { return "myErr" + strconv.Itoa(e.code) }

func Selftest_StdMisc() {
	a, b, c := nd.IntRange(0, 5), nd.IntRange(0, 5), nd.IntRange(0, 5)
	switch nd.Choice(8) {
	case 0:
		xs := []int{a, b, c}
		sort.Ints(xs)
		ys := []int{a, b, c}
		sort.Slice(ys, func(i, j int) bool { return ys[i] > ys[j] })
		obs(xs, ys, sort.SearchInts(xs, b), sort.IsSorted(sort.IntSlice(xs)))
	case 1:
		ss := byLen{"ccc", "a", "bb", "dd"}
		sort.Stable(ss)
		zs := []string{"b", "a", "c"}
		sort.Strings(zs)
		sort.SliceStable(zs, func(i, j int) bool { return false })
		obs(ss, zs, sort.SearchStrings(zs, "b"))
	case 2:
		e1 := &myErr{a}
		w := fmt.Errorf("wrap: %w", e1)
		var target *myErr
		obs(errors.Is(w, e1), errors.As(w, &target), target.code, errors.Unwrap(w) == e1, w.Error(), errors.Join(e1, nil) != nil)
	case 3:
		obs(min(a, b, c), max(a, b), min("b", "a"))
		m := map[string]int{"x": a, "y": b}
		delete(m, "x")
		_, ok := m["x"]
		clear(m)
		obs(ok, len(m))
	case 4:
		var once sync.Once
		n := 0
		for i := 0; i < 3; i++ {
			once.Do(func() { n++ })
		}
		var wg sync.WaitGroup
		var cnt atomic.Int32
		var flag atomic.Bool
		var mu sync.RWMutex
		total := 0
		for i := 0; i < 3; i++ {
			wg.Add(1)
			go func(k int) {
				defer wg.Done()
				cnt.Add(1)
				mu.Lock()
				total += k
				mu.Unlock()
				flag.Store(true)
			}(i + a)
		}
		wg.Wait()
		mu.RLock()
		t := total
		mu.RUnlock()
		obs(n, cnt.Load(), flag.Load(), t)
	case 5:
		var i64 atomic.Int64
		var u32 uint32
		i64.Store(int64(a))
		i64.CompareAndSwap(int64(a), 9)
		atomic.AddUint32(&u32, 2)
		atomic.StoreUint32(&u32, atomic.LoadUint32(&u32)+uint32(b))
		var p atomic.Pointer[myErr]
		p.Store(&myErr{c})
		obs(i64.Load(), u32, p.Load().code, atomic.CompareAndSwapUint32(&u32, 0, 1))
	case 6:
		ch := make(chan int, 2)
		done := make(chan struct{})
		go func() {
			for v := range ch {
				a += v
			}
			close(done)
		}()
		ch <- 1
		ch <- 2
		close(ch)
		<-done
		select {
		case <-done:
			a += 10
		default:
			a += 100
		}
		obs(a)
	case 7:
		obs(unicode.IsUpper('É'), unicode.ToLower('É'), unicode.Is(unicode.Han, '世'), unicode.In('a', unicode.Letter, unicode.Digit), unicode.IsPunct('!'), unicode.SimpleFold('a'))
	}
}
