package h

import (
	"github.com/hattya/go.sh/ast"
	"github.com/hattya/go.sh/interp"
	"verifharness/nd"
)

// C13 — parameter expansion follows the POSIX operator table.
//
// ParamExp nodes are built directly; the parameter state (unset / null /
// non-null with a symbolic value), the parameter kind (variable, positional),
// the quoting context, the nounset option and the operator are
// engine-enumerated; values and words are symbolic bytes. The oracle is the
// POSIX table written out below.

const (
	stUnset = iota
	stNull
	stVal
)

// refParam returns the POSIX result of ${p<op>w} for a parameter in state st
// with value val: the resulting text, whether w is assigned to p, whether the
// expansion fails, and whether w is expanded at all.
func refParam(op string, st int, val, w string) (res string, assign, fail, usesW bool) {
	colon := len(op) == 2 && op[0] == ':'
	base := op
	if colon {
		base = op[1:]
	}
	// the colon forms treat null as unset
	absent := st == stUnset || (colon && st == stNull)
	switch base {
	case "-":
		if absent {
			return w, false, false, true
		}
		return val, false, false, false
	case "=":
		if absent {
			return w, true, false, true
		}
		return val, false, false, false
	case "?":
		if absent {
			return "", false, true, true
		}
		return val, false, false, false
	case "+":
		if absent {
			return "", false, false, false
		}
		return w, false, false, true
	}
	panic("refParam " + op)
}

// noIFS: no byte of s is a default IFS character (built without control flow).
func noIFS(s string) bool {
	ok := true
	for i := 0; i < len(s); i++ {
		c := s[i]
		ok = nd.And(ok, nd.And(c != ' ', nd.And(c != '\t', c != '\n')))
	}
	return ok
}

func mkParam(name, op string, word ast.Word) *ast.ParamExp {
	return &ast.ParamExp{Braces: true, Name: &ast.Lit{Value: name}, Op: op, Word: word}
}

var tableOps = []string{":-", "-", ":=", "=", ":?", "?", ":+", "+"}

// C13_Table: the eight table operators x 3 states x {variable, positional} x
// {unquoted, double-quoted} x {nounset off, on}.
func C13_Table() {
	op := tableOps[nd.Choice(len(tableOps))]
	st := nd.Choice(3)
	kind := nd.Choice(4) // variable, positional parameter 1, $*, $@
	positional := kind != 0
	special := kind >= 2
	quoted := nd.Choice(2) == 1
	nounset := nd.Choice(2) == 1
	if special && st == stUnset {
		// no positional parameters: "unset" or "set but null" depending on the
		// reading; the colon forms do not distinguish the two
		nd.Assume(op[0] == ':')
	}

	val := ""
	if st == stVal {
		val = nd.Str(2)
	}
	w := nd.Str(nd.Choice(3))
	// keep field splitting out of the picture: no IFS bytes in unquoted results
	if !quoted {
		nd.Assume(noIFS(val))
		nd.Assume(noIFS(w))
	}
	if len(w) > 0 {
		nd.Assume(w[0] != '~')
	}

	name := "v"
	var env *interp.ExecEnv
	if positional {
		name = []string{"v", "1", "*", "@"}[kind]
		if st == stUnset {
			env = interp.NewExecEnv("sh")
		} else {
			env = interp.NewExecEnv("sh", val)
		}
	} else {
		env = interp.NewExecEnv("sh")
		if st != stUnset {
			env.Set("v", val)
		}
	}
	env.Opts = interp.NoGlob
	if nounset {
		env.Opts |= interp.NoUnset
	}
	// the word carries a nested assignment so that "w is expanded only when
	// it is used" is observable: ${q=} leaves q set-but-null iff it ran
	word := ast.Word{&ast.Lit{Value: w}, mkParam("q", "=", ast.Word{})}
	pe := mkParam(name, op, word)
	var top ast.Word
	if quoted {
		top = ast.Word{&ast.Quote{Tok: `"`, Value: ast.Word{pe}}}
	} else {
		top = ast.Word{pe}
	}

	got, err := env.Expand(top, 0)
	res, assign, fail, usesW := refParam(op, st, val, w)
	nd.Observe(op)

	_, qset := env.Get("q")
	if fail {
		nd.Cover("fail")
		_, isPE := err.(interp.ParamExpError)
		nd.Assert(isPE, "unset/null parameter with ? yields a ParamExpError")
		if !special {
			v, set := env.Get(name)
			nd.Assert(set == (st != stUnset) && (!set || v.Value == val), "a failing expansion leaves the parameter untouched")
		}
		return
	}
	if assign && positional {
		nd.Cover("assign-positional")
		_, isPE := err.(interp.ParamExpError)
		nd.Assert(isPE, "positional parameters cannot be assigned with =")
		return
	}
	nd.Assert(err == nil, "expansion succeeds")
	if err != nil {
		return
	}
	nd.Assert(qset == usesW, "the word is expanded exactly when it is used")
	if quoted {
		nd.Assert(len(got) == 1 && got[0] == res, "quoted expansion yields exactly the table value")
	} else if res == "" {
		nd.Assert(len(got) == 0, "empty unquoted expansion yields no field")
	} else {
		nd.Assert(len(got) == 1 && got[0] == res, "unquoted expansion yields the table value")
	}
	if special {
		nd.Cover("special")
		nd.Assert(len(env.Args) == 1+b2i(st != stUnset) && (st == stUnset || env.Args[1] == val), "the positional parameters are unchanged")
		return
	}
	v, set := env.Get(name)
	if assign {
		nd.Cover("assign")
		nd.Assert(set && v.Value == w, "= assigns the expanded word")
	} else {
		nd.Assert(set == (st != stUnset) && (!set || v.Value == val), "the parameter is unchanged")
	}
}

// C13_Plain: $p / ${p} / ${#p} for variable, positional and special
// parameters, unset or set, with nounset on/off.
func C13_Plain() {
	kind := nd.Choice(3) // 0 variable, 1 positional, 2 ${#p}
	st := nd.Choice(3)
	nounset := nd.Choice(2) == 1
	braces := nd.Choice(2) == 1
	val := ""
	if st == stVal {
		val = nd.Str(2)
		nd.Assume(noIFS(val))
	}
	env := interp.NewExecEnv("sh")
	name := "v"
	if kind == 1 {
		name = "2"
		if st != stUnset {
			env = interp.NewExecEnv("sh", "first", val)
		} else {
			env = interp.NewExecEnv("sh", "first")
		}
	} else if st != stUnset {
		env.Set("v", val)
	}
	env.Opts = interp.NoGlob
	if nounset {
		env.Opts |= interp.NoUnset
	}
	pe := &ast.ParamExp{Braces: braces, Name: &ast.Lit{Value: name}}
	if kind == 2 {
		pe.Braces = true
		pe.Op = "#"
	}
	got, err := env.Expand(ast.Word{&ast.Quote{Tok: `"`, Value: ast.Word{pe}}}, 0)
	if st == stUnset && nounset {
		nd.Cover("nounset-error")
		_, isPE := err.(interp.ParamExpError)
		nd.Assert(isPE, "expanding an unset parameter under nounset is a ParamExpError")
		return
	}
	nd.Assert(err == nil, "plain expansion succeeds")
	if err != nil {
		return
	}
	if kind == 2 {
		if st != stUnset {
			nd.Assert(len(got) == 1 && got[0] == itoa(len(val)), "${#p} is the length")
		}
		return
	}
	nd.Assert(len(got) == 1 && got[0] == val, "quoted $p is the value")
}

// C13_Length: ${#p} counts characters, not bytes.
func C13_Length() {
	env := interp.NewExecEnv("sh")
	b := nd.Str(1)
	env.Set("v", "é"+b+"世")
	pe := &ast.ParamExp{Braces: true, Name: &ast.Lit{Value: "v"}, Op: "#"}
	got, err := env.Expand(ast.Word{pe}, 0)
	nd.Assert(err == nil && len(got) == 1 && got[0] == "3", "${#p} counts characters")
}

// C13_Special: special parameters reflect Args/Opts and cannot be assigned.
func C13_Special() {
	n := nd.Choice(3)
	args := []string{"sh"}
	for i := 0; i < n; i++ {
		args = append(args, nd.Str(1))
	}
	env := interp.NewExecEnv(args[0], args[1:]...)
	env.Opts = interp.NoGlob
	sp := []string{"#", "?", "0", "@", "*", "-", "$", "!"}[nd.Choice(8)]
	// reading
	got, err := env.Expand(ast.Word{&ast.Quote{Tok: `"`, Value: ast.Word{&ast.ParamExp{Name: &ast.Lit{Value: sp}}}}}, 0)
	nd.Assert(err == nil, "special parameters can be read")
	switch sp {
	case "#":
		nd.Assert(len(got) == 1 && got[0] == itoa(n), "$# is the number of positional parameters")
	case "?":
		nd.Assert(len(got) == 1 && got[0] == "0", "$? is 0")
	case "0":
		nd.Assert(len(got) == 1 && got[0] == "sh", "$0 is the name")
	case "@":
		// "$@": one field per positional parameter (none: no field)
		nd.Assert(len(got) == n, "\"$@\" yields one field per positional parameter")
		if len(got) == n {
			for i := 0; i < n; i++ {
				nd.Assert(got[i] == args[i+1], "\"$@\" field content")
			}
		}
	case "*":
		want := ""
		for i := 0; i < n; i++ {
			if i > 0 {
				want += " "
			}
			want += args[i+1]
		}
		nd.Assert(len(got) == 1 && got[0] == want, "\"$*\" joins with the first IFS character")
	}
	// assigning through ${sp:=w} fails for every special parameter that is null/unset
	_, err = env.Expand(ast.Word{mkParam(sp, ":=", ast.Word{&ast.Lit{Value: "w"}})}, 0)
	v, set := env.Get(sp)
	if err != nil {
		_, isPE := err.(interp.ParamExpError)
		nd.Assert(isPE, "assigning a special parameter is a ParamExpError")
	}
	env.Set(sp, "changed")
	v2, set2 := env.Get(sp)
	nd.Assert(set == set2 && v.Value == v2.Value, "Set does not change special parameters")
}

// C13_IFSJoin: "$*" joins with the first character of IFS (custom, empty, unset).
func C13_IFSJoin() {
	a, b := nd.Str(1), nd.Str(1)
	env := interp.NewExecEnv("sh", a, b)
	sep := " "
	switch nd.Choice(3) {
	case 0:
		s := nd.Str(2)
		env.Set("IFS", s)
		sep = s[:1]
	case 1:
		env.Set("IFS", "")
		sep = ""
	case 2:
		env.Unset("IFS")
	}
	got, err := env.Expand(ast.Word{&ast.Quote{Tok: `"`, Value: ast.Word{&ast.ParamExp{Name: &ast.Lit{Value: "*"}}}}}, 0)
	nd.Assert(err == nil && len(got) == 1 && got[0] == a+sep+b, "\"$*\" joins with the first IFS character")
}

// ---- pattern removal: ${p%w} ${p%%w} ${p#w} ${p##w}

// globMatch is a direct backtracking matcher for patterns over literal
// characters, ? and * (no brackets).
func globMatch(pat, s string) bool {
	if pat == "" {
		return s == ""
	}
	switch pat[0] {
	case '*':
		for i := 0; i <= len(s); i++ {
			if globMatch(pat[1:], s[i:]) {
				return true
			}
		}
		return false
	case '?':
		return s != "" && globMatch(pat[1:], s[1:])
	}
	return s != "" && s[0] == pat[0] && globMatch(pat[1:], s[1:])
}

func refTrim(op, val, pat string) string {
	n := len(val)
	switch op {
	case "#": // shortest prefix
		for i := 0; i <= n; i++ {
			if globMatch(pat, val[:i]) {
				return val[i:]
			}
		}
	case "##": // longest prefix
		for i := n; i >= 0; i-- {
			if globMatch(pat, val[:i]) {
				return val[i:]
			}
		}
	case "%": // shortest suffix
		for i := n; i >= 0; i-- {
			if globMatch(pat, val[i:]) {
				return val[:i]
			}
		}
	case "%%": // longest suffix
		for i := 0; i <= n; i++ {
			if globMatch(pat, val[i:]) {
				return val[:i]
			}
		}
	}
	return val
}

func C13_Trim() {
	op := []string{"%", "%%", "#", "##"}[nd.Choice(4)]
	val := nd.StrIn(3, "ab")
	pat := []string{"a", "b", "*", "?", "a*", "*b", "?*", "ab", "*a*"}[nd.Choice(9)]
	quotedPat := nd.Choice(2) == 1
	env := interp.NewExecEnv("sh")
	env.Set("v", val)
	var word ast.Word
	want := ""
	if quotedPat {
		// a quoted pattern matches only itself
		word = ast.Word{&ast.Quote{Tok: "'", Value: ast.Word{&ast.Lit{Value: pat}}}}
		want = val
		switch op {
		case "#", "##":
			if len(val) >= len(pat) && val[:len(pat)] == pat {
				want = val[len(pat):]
			}
		default:
			if len(val) >= len(pat) && val[len(val)-len(pat):] == pat {
				want = val[:len(val)-len(pat)]
			}
		}
	} else {
		word = ast.Word{&ast.Lit{Value: pat}}
		want = refTrim(op, val, pat)
	}
	got, err := env.Expand(ast.Word{&ast.Quote{Tok: `"`, Value: ast.Word{mkParam("v", op, word)}}}, 0)
	nd.Assert(err == nil && len(got) == 1, "pattern removal succeeds")
	if err == nil && len(got) == 1 {
		nd.Assert(got[0] == want, "pattern removal result")
	}
	nd.Observe(op + " " + pat)
}

// C13_PosName: a name made of digits is a positional parameter whatever its
// length: it reflects Args (unset beyond them) and cannot be assigned. The
// leading digits are symbolic; strconv.Atoi / ParseInt are interpreted from the
// std source on them, so the solver also sees values beyond the int range.
func C13_PosName() {
	var name string
	l := []int{1, 2, 3, 18, 19, 20, 21, 0}[nd.Choice(8)]
	if l == 0 {
		// wrap-around boundaries: the leading digits of 2^63, 2^64, 2*2^64
		// and 10^19, then two symbolic digits
		name = []string{"92233720368547758", "184467440737095516", "368934881474191032", "100000000000000000"}[nd.Choice(4)]
		name += nd.StrIn(2, "0123456789")
		l = len(name)
	} else {
		// the two leading digits are symbolic, the rest are nines (20 free digits
		// make 64-bit multiplication chains that no solver here decides)
		name = nd.StrIn(1, "0123456789")
		if l > 1 {
			name += nd.StrIn(1, "0123456789")
		}
		for len(name) < l {
			name += "9"
		}
	}
	nd.Assume(name[0] != '0') // "0", "00" ... name parameter 0
	env := interp.NewExecEnv("sh", "p1", "p2", "p3")
	var inherited []string
	env.Walk(func(v interp.Var) { inherited = append(inherited, v.Name) })
	count := len(inherited)
	env.Set(name, "v")
	n := 0
	env.Walk(func(v interp.Var) { n++ })
	nd.Assert(n == count, "Set does not create a variable named like a positional parameter")
	v, set := env.Get(name)
	if l == 1 && (name == "1" || name == "2" || name == "3") {
		nd.Assert(set && v.Value == "p"+name, "$1..$3 reflect Args")
	} else {
		nd.Assert(!set, "a positional parameter beyond Args is unset")
	}
	_, err := env.Expand(ast.Word{mkParam(name, ":=", ast.Word{&ast.Lit{Value: "w"}})}, interp.Literal)
	if !set {
		_, isPE := err.(interp.ParamExpError)
		nd.Assert(isPE, "a positional parameter cannot be assigned with :=")
	}
}

// C13_WordAt: the word of ${p:-w} ${p-w} ${p:+w} ${p+w} may itself expand to
// several fields ("$@" inside it): when the word is used, each positional
// parameter is a field of its own, whatever IFS is (unset, null, blank, ':'),
// joined to the text before and after the expansion.
func C13_WordAt() {
	ops := []string{":-", "-", ":+", "+"}
	op := ops[nd.Choice(4)]
	params := [][]string{{}, {"p"}, {"p", "q r"}, {"a:b", "", "c"}}[nd.Choice(4)]
	last := nd.Str(1)
	env := interp.NewExecEnv("sh", params...)
	if len(params) > 0 {
		env.Args[len(env.Args)-1] += last
		params = append([]string{}, env.Args[1:]...)
	}
	env.Opts = interp.NoGlob
	ifsKind := nd.Choice(4)
	switch ifsKind {
	case 0:
		env.Unset("IFS")
	case 1:
		env.Set("IFS", "")
	case 2:
		env.Set("IFS", " ")
	case 3:
		env.Set("IFS", ":")
	}
	env.Set("s", "v")
	name := "s" // set and not null: + forms use the word
	if op[len(op)-1] == '-' {
		name = "u" // unset: - forms use the word
	}
	word := ast.Word{&ast.Quote{Tok: `"`, Value: ast.Word{&ast.ParamExp{Name: &ast.Lit{Value: "@"}}}}}
	pre, post := nd.Choice(2) == 1, nd.Choice(2) == 1
	top := ast.Word{}
	if pre {
		top = append(top, &ast.Lit{Value: "x"})
	}
	top = append(top, mkParam(name, op, word))
	if post {
		top = append(top, &ast.Lit{Value: "y"})
	}
	got, err := env.Expand(top, 0)
	nd.Observe(op + " #" + itoa(len(params)) + " ifs" + itoa(ifsKind))
	nd.Assert(err == nil, "expansion succeeds")
	if err != nil {
		return
	}
	var want []string
	cur := ""
	if pre {
		cur = "x"
	}
	for j, p := range params {
		if j > 0 {
			want = append(want, cur)
			cur = ""
		}
		cur += p
	}
	if post {
		cur += "y"
	}
	if len(params) > 0 || pre || post {
		want = append(want, cur)
	}
	nd.Assert(len(got) == len(want), "\"$@\" inside the word of a parameter expansion yields one field per positional parameter")
	if len(got) == len(want) {
		for k := range got {
			nd.Assert(got[k] == want[k], "fields of \"$@\" inside the word of a parameter expansion")
		}
	}
}
