package interp

// gosx: second layer of the std boundary — the leaf functions that have no Go
// body (internal/bytealg, sync/atomic) and the blocking primitives of package
// sync, so that std code built on them (strings.Split, strings.Fields,
// bytes.Buffer, sort, atomic.Int32, sync.WaitGroup, ...) can be interpreted
// from its own source when a change to go.sh starts using it.

import (
	"go/token"
	"go/types"
	"math/bits"
	"regexp"
	"unicode"

	"golang.org/x/tools/go/ssa"
)

// hostFunc is a function value implemented by the engine (e.g. the swapper
// that sort.Slice obtains by reflection).
type hostFunc func(fr *frame, args []value) value

func sliceOfAny(v value) []value {
	if f, ok := v.(iface); ok {
		v = f.v
	}
	s, ok := v.([]value)
	if !ok {
		panic(engineError{"sort.Slice on a value that is not a slice"})
	}
	return s
}

func (i *interpreter) sortFunc(name string) *ssa.Function {
	f := i.prog.ImportedPackage("sort").Func(name)
	if f == nil {
		panic(engineError{"sort." + name + " not found"})
	}
	return f
}

// cellsOf returns the byte cells of a string or []byte value.
func cellsOf(v value) []value {
	if b, ok := v.([]value); ok {
		return b
	}
	return strCells(v)
}

func (i *interpreter) cellLess(a, b value) bool {
	return i.decide(binop(i, token.LSS, types.Typ[types.Uint8], a, b))
}

func (i *interpreter) indexCells(hay, needle []value) int {
	if len(needle) == 0 {
		return 0
	}
	for p := 0; p+len(needle) <= len(hay); p++ {
		ok := true
		for k := range needle {
			if !i.scalarEq(hay[p+k], needle[k]) {
				ok = false
				break
			}
		}
		if ok {
			return p
		}
	}
	return -1
}

func (i *interpreter) compareCells(a, b []value) int {
	for k := 0; k < len(a) && k < len(b); k++ {
		if i.scalarEq(a[k], b[k]) {
			continue
		}
		if i.cellLess(a[k], b[k]) {
			return -1
		}
		return 1
	}
	switch {
	case len(a) < len(b):
		return -1
	case len(a) > len(b):
		return 1
	}
	return 0
}

// ---- sync: WaitGroup, Once, RWMutex as scheduler primitives

type syncState struct {
	n       int  // WaitGroup counter / RWMutex readers
	writer  bool // RWMutex
	phase   int  // Once: 0 new, 1 running, 2 done
	waiters []*G
}

func (i *interpreter) syncSt(h value) *syncState {
	p := h.(*value)
	if i.syncStates == nil {
		i.syncStates = map[*value]*syncState{}
	}
	st := i.syncStates[p]
	if st == nil {
		st = &syncState{}
		i.syncStates[p] = st
	}
	return st
}

func (s *sched) waitOn(st *syncState, why string) {
	st.waiters = append(st.waiters, s.cur)
	s.park(why)
}

func (s *sched) wakeAll(st *syncState) {
	ws := st.waiters
	st.waiters = nil
	for _, g := range ws {
		s.ready(g)
	}
}

func atomicAddr(v value) *value { return v.(*value) }

func init() {
	leaf := map[string]externalFn{
		// ---- internal/bytealg
		"internal/bytealg.IndexByteString": func(fr *frame, a []value) value {
			for j, c := range strCells(a[0]) {
				if fr.i.scalarEq(c, a[1]) {
					return j
				}
			}
			return -1
		},
		"internal/bytealg.IndexByte": func(fr *frame, a []value) value {
			for j, c := range cellsOf(a[0]) {
				if fr.i.scalarEq(c, a[1]) {
					return j
				}
			}
			return -1
		},
		"internal/bytealg.LastIndexByteString": func(fr *frame, a []value) value {
			c := strCells(a[0])
			for j := len(c) - 1; j >= 0; j-- {
				if fr.i.scalarEq(c[j], a[1]) {
					return j
				}
			}
			return -1
		},
		"internal/bytealg.LastIndexByte": func(fr *frame, a []value) value {
			c := cellsOf(a[0])
			for j := len(c) - 1; j >= 0; j-- {
				if fr.i.scalarEq(c[j], a[1]) {
					return j
				}
			}
			return -1
		},
		"internal/bytealg.CountString": func(fr *frame, a []value) value {
			n := 0
			for _, c := range strCells(a[0]) {
				if fr.i.scalarEq(c, a[1]) {
					n++
				}
			}
			return n
		},
		"internal/bytealg.Count": func(fr *frame, a []value) value {
			n := 0
			for _, c := range cellsOf(a[0]) {
				if fr.i.scalarEq(c, a[1]) {
					n++
				}
			}
			return n
		},
		"internal/bytealg.Equal": func(fr *frame, a []value) value {
			x, y := cellsOf(a[0]), cellsOf(a[1])
			if len(x) != len(y) {
				return false
			}
			for k := range x {
				if !fr.i.scalarEq(x[k], y[k]) {
					return false
				}
			}
			return true
		},
		"internal/bytealg.Compare": func(fr *frame, a []value) value {
			return fr.i.compareCells(cellsOf(a[0]), cellsOf(a[1]))
		},
		"internal/bytealg.IndexString": func(fr *frame, a []value) value {
			return fr.i.indexCells(strCells(a[0]), strCells(a[1]))
		},
		"internal/bytealg.Index": func(fr *frame, a []value) value {
			return fr.i.indexCells(cellsOf(a[0]), cellsOf(a[1]))
		},
		"internal/bytealg.Cutover": func(fr *frame, a []value) value { return 1 << 30 },
		"internal/bytealg.MakeNoZero": func(fr *frame, a []value) value {
			n := a[0].(int)
			b := make([]value, n)
			for k := range b {
				b[k] = uint8(0)
			}
			return b
		},
		"bytes.Compare": func(fr *frame, a []value) value {
			return fr.i.compareCells(cellsOf(a[0]), cellsOf(a[1]))
		},
		"strings.Compare": func(fr *frame, a []value) value {
			return fr.i.compareCells(strCells(a[0]), strCells(a[1]))
		},
		"bytes.Index": func(fr *frame, a []value) value {
			return fr.i.indexCells(cellsOf(a[0]), cellsOf(a[1]))
		},
		// ---- sort.Slice & co: the std algorithm is interpreted, only the
		// reflection-based swapper is supplied by the engine
		"sort.Slice": func(fr *frame, a []value) value {
			xs := sliceOfAny(a[0])
			swap := hostFunc(func(_ *frame, ij []value) value {
				p, q := ij[0].(int), ij[1].(int)
				xs[p], xs[q] = xs[q], xs[p]
				return nil
			})
			n := len(xs)
			call(fr.i, fr, token.NoPos, fr.i.sortFunc("pdqsort_func"), []value{structure{a[1], swap}, 0, n, bits.Len(uint(n))})
			return nil
		},
		"sort.SliceStable": func(fr *frame, a []value) value {
			xs := sliceOfAny(a[0])
			swap := hostFunc(func(_ *frame, ij []value) value {
				p, q := ij[0].(int), ij[1].(int)
				xs[p], xs[q] = xs[q], xs[p]
				return nil
			})
			call(fr.i, fr, token.NoPos, fr.i.sortFunc("stable_func"), []value{structure{a[1], swap}, len(xs)})
			return nil
		},
		"sort.SliceIsSorted": func(fr *frame, a []value) value {
			xs := sliceOfAny(a[0])
			for k := len(xs) - 1; k > 0; k-- {
				if fr.i.decide(call(fr.i, fr, token.NoPos, a[1], []value{k, k - 1})) {
					return false
				}
			}
			return true
		},
		// ---- fmt, writer forms: formatted by the engine's formatter, written
		// through the writer's own Write method
		"fmt.Fprintf": func(fr *frame, a []value) value {
			return fr.i.writeTo(fr, a[0], fr.i.sprintf(fr.i.conc(a[1]).(string), a[2].([]value)))
		},
		"fmt.Fprint": func(fr *frame, a []value) value {
			return fr.i.writeTo(fr, a[0], fr.i.sprintArgs(a[1].([]value), false))
		},
		"fmt.Fprintln": func(fr *frame, a []value) value {
			return fr.i.writeTo(fr, a[0], fr.i.sprintArgs(a[1].([]value), true))
		},
		"fmt.Sprintln": func(fr *frame, a []value) value {
			return fr.i.sprintArgs(a[0].([]value), true)
		},
		"regexp.QuoteMeta": func(fr *frame, a []value) value { return regexp.QuoteMeta(fr.i.conc(a[0]).(string)) },
		"unicode.SimpleFold": func(fr *frame, a []value) value { return unicode.SimpleFold(fr.i.conc(a[0]).(int32)) },
		// ---- errors.Is / errors.As (the std versions use reflection)
		"errors.Is": func(fr *frame, a []value) value {
			return fr.i.errorsIs(fr, a[0], a[1])
		},
		"errors.As": func(fr *frame, a []value) value {
			return fr.i.errorsAs(fr, a[0], a[1])
		},
		// ---- sync.Pool: a pool that never retains anything (always legal)
		"(*sync.Pool).Get": func(fr *frame, a []value) value {
			st := (*a[0].(*value)).(structure)
			rt := fr.fn.Signature.Recv().Type().(*types.Pointer).Elem().Underlying().(*types.Struct)
			for k := 0; k < rt.NumFields(); k++ {
				if rt.Field(k).Name() == "New" {
					if st[k] == nil {
						return iface{}
					}
					if f, ok := st[k].(*ssa.Function); ok && f == nil {
						return iface{}
					}
					return call(fr.i, fr, token.NoPos, st[k], nil)
				}
			}
			return iface{}
		},
		"(*sync.Pool).Put": func(fr *frame, a []value) value { return nil },
		// ---- sync.WaitGroup
		"(*sync.WaitGroup).Add": func(fr *frame, a []value) value {
			fr.i.sched.yield()
			st := fr.i.syncSt(a[0])
			st.n += fr.i.conc(a[1]).(int)
			if st.n < 0 {
				panic(targetPanic{"sync: negative WaitGroup counter"})
			}
			fr.i.sched.releaseAddr(a[0].(*value))
			if st.n == 0 {
				fr.i.sched.wakeAll(st)
			}
			return nil
		},
		"(*sync.WaitGroup).Done": func(fr *frame, a []value) value {
			fr.i.sched.yield()
			st := fr.i.syncSt(a[0])
			st.n--
			if st.n < 0 {
				panic(targetPanic{"sync: negative WaitGroup counter"})
			}
			fr.i.sched.releaseAddr(a[0].(*value))
			if st.n == 0 {
				fr.i.sched.wakeAll(st)
			}
			return nil
		},
		"(*sync.WaitGroup).Wait": func(fr *frame, a []value) value {
			fr.i.sched.yield()
			st := fr.i.syncSt(a[0])
			for st.n > 0 {
				fr.i.sched.waitOn(st, "waitgroup")
			}
			fr.i.sched.acquireAddr(a[0].(*value))
			return nil
		},
		// ---- sync.Once
		"(*sync.Once).Do": func(fr *frame, a []value) value {
			fr.i.sched.yield()
			st := fr.i.syncSt(a[0])
			for st.phase == 1 {
				fr.i.sched.waitOn(st, "once")
			}
			if st.phase == 2 {
				fr.i.sched.acquireAddr(a[0].(*value))
				return nil
			}
			st.phase = 1
			defer func() {
				st.phase = 2
				fr.i.sched.releaseAddr(a[0].(*value))
				fr.i.sched.wakeAll(st)
			}()
			call(fr.i, fr, token.NoPos, a[1], nil)
			return nil
		},
		// ---- sync.RWMutex
		"(*sync.RWMutex).Lock": func(fr *frame, a []value) value {
			fr.i.sched.yield()
			st := fr.i.syncSt(a[0])
			for st.writer || st.n > 0 {
				fr.i.sched.waitOn(st, "rwmutex")
			}
			st.writer = true
			fr.i.sched.acquireAddr(a[0].(*value))
			return nil
		},
		"(*sync.RWMutex).Unlock": func(fr *frame, a []value) value {
			st := fr.i.syncSt(a[0])
			if !st.writer {
				panic(targetPanic{"sync: Unlock of unlocked RWMutex"})
			}
			st.writer = false
			fr.i.sched.releaseAddr(a[0].(*value))
			fr.i.sched.wakeAll(st)
			fr.i.sched.yield()
			return nil
		},
		"(*sync.RWMutex).RLock": func(fr *frame, a []value) value {
			fr.i.sched.yield()
			st := fr.i.syncSt(a[0])
			for st.writer {
				fr.i.sched.waitOn(st, "rwmutex")
			}
			st.n++
			fr.i.sched.acquireAddr(a[0].(*value))
			return nil
		},
		"(*sync.RWMutex).RUnlock": func(fr *frame, a []value) value {
			st := fr.i.syncSt(a[0])
			if st.n <= 0 {
				panic(targetPanic{"sync: RUnlock of unlocked RWMutex"})
			}
			st.n--
			fr.i.sched.releaseAddr(a[0].(*value))
			if st.n == 0 {
				fr.i.sched.wakeAll(st)
			}
			fr.i.sched.yield()
			return nil
		},
		"(*sync.Mutex).TryLock": func(fr *frame, a []value) value {
			fr.i.sched.yield()
			m := a[0].(*value)
			st := (*m).(structure)
			if st[0].(int32) != 0 {
				return false
			}
			st[0] = int32(1)
			fr.i.sched.acquireAddr(m)
			return true
		},
	}
	// ---- sync/atomic, function forms (the typed wrappers are interpreted
	// from their source and end up here)
	for _, ty := range []string{"Int32", "Int64", "Uint32", "Uint64", "Uintptr", "Pointer"} {
		ty := ty
		leaf["sync/atomic.Load"+ty] = func(fr *frame, a []value) value {
			fr.i.sched.yield()
			p := atomicAddr(a[0])
			fr.i.sched.acquireAddr(p)
			return *p
		}
		leaf["sync/atomic.Store"+ty] = func(fr *frame, a []value) value {
			fr.i.sched.yield()
			p := atomicAddr(a[0])
			*p = a[1]
			fr.i.sched.releaseAddr(p)
			return nil
		}
		leaf["sync/atomic.Swap"+ty] = func(fr *frame, a []value) value {
			fr.i.sched.yield()
			p := atomicAddr(a[0])
			fr.i.sched.acquireAddr(p)
			old := *p
			*p = a[1]
			fr.i.sched.releaseAddr(p)
			return old
		}
		leaf["sync/atomic.CompareAndSwap"+ty] = func(fr *frame, a []value) value {
			fr.i.sched.yield()
			p := atomicAddr(a[0])
			fr.i.sched.acquireAddr(p)
			eq := false
			if ty == "Pointer" {
				eq = *p == a[1]
			} else {
				eq = fr.i.scalarEq(*p, a[1])
			}
			if !eq {
				return false
			}
			*p = a[2]
			fr.i.sched.releaseAddr(p)
			return true
		}
		if ty != "Pointer" {
			leaf["sync/atomic.Add"+ty] = func(fr *frame, a []value) value {
				fr.i.sched.yield()
				p := atomicAddr(a[0])
				fr.i.sched.acquireAddr(p)
				n := binop(fr.i, token.ADD, nil, *p, a[1])
				*p = n
				fr.i.sched.releaseAddr(p)
				return n
			}
			leaf["sync/atomic.And"+ty] = func(fr *frame, a []value) value {
				fr.i.sched.yield()
				p := atomicAddr(a[0])
				old := *p
				*p = binop(fr.i, token.AND, nil, *p, a[1])
				return old
			}
			leaf["sync/atomic.Or"+ty] = func(fr *frame, a []value) value {
				fr.i.sched.yield()
				p := atomicAddr(a[0])
				old := *p
				*p = binop(fr.i, token.OR, nil, *p, a[1])
				return old
			}
		}
	}
	for k, v := range leaf {
		if _, dup := externals[k]; !dup {
			externals[k] = v
		}
	}
}

// sprintArgs formats operands as fmt.Sprint / Sprintln do (Sprint adds blanks
// between operands when neither is a string).
func (i *interpreter) sprintArgs(args []value, ln bool) value {
	out := ""
	for k, x := range args {
		if k > 0 {
			_, s1 := ifaceVal(args[k-1]).(string)
			_, s2 := ifaceVal(x).(string)
			if ln || (!s1 && !s2) {
				out += " "
			}
		}
		out += i.fmtArg('v', x)
	}
	if ln {
		out += "\n"
	}
	return out
}

// ifaceVal returns the dynamic value; symbolic strings count as strings.
func ifaceVal(v value) value {
	if f, ok := v.(iface); ok {
		v = f.v
	}
	switch v.(type) {
	case sstr, decStr:
		return ""
	}
	return v
}

// writeTo calls w.Write([]byte(s)) on an io.Writer value and returns (n, err).
func (i *interpreter) writeTo(fr *frame, w value, s value) value {
	wi := w.(iface)
	if wi.t == nil {
		panic(targetPanic{"runtime error: invalid memory address or nil pointer dereference"})
	}
	mset := i.prog.MethodSets.MethodSet(wi.t)
	sel := mset.Lookup(nil, "Write")
	if sel == nil {
		panic(engineError{"fmt.Fprint*: writer without Write method"})
	}
	f := i.prog.MethodValue(sel)
	cells := append([]value(nil), strCells(s)...)
	return call(i, fr, token.NoPos, f, []value{wi.v, cells})
}

func (i *interpreter) methodNamed(t types.Type, name string) *ssa.Function {
	sel := i.prog.MethodSets.MethodSet(t).Lookup(nil, name)
	if sel == nil {
		return nil
	}
	return i.prog.MethodValue(sel)
}

// unwrapErr returns the errors err wraps (Unwrap() error or Unwrap() []error).
func (i *interpreter) unwrapErr(fr *frame, e iface) []iface {
	m := i.methodNamed(e.t, "Unwrap")
	if m == nil || m.Signature.Params().Len() != 0 || m.Signature.Results().Len() != 1 {
		return nil
	}
	r := call(i, fr, token.NoPos, m, []value{e.v})
	switch r := r.(type) {
	case iface:
		if r.t == nil {
			return nil
		}
		return []iface{r}
	case []value:
		var out []iface
		for _, x := range r {
			if f, ok := x.(iface); ok && f.t != nil {
				out = append(out, f)
			}
		}
		return out
	}
	return nil
}

func (i *interpreter) errorsIs(fr *frame, errv, targetv value) value {
	err, target := errv.(iface), targetv.(iface)
	if err.t == nil || target.t == nil {
		return err.t == nil && target.t == nil
	}
	comparable := types.Comparable(target.t)
	var walk func(e iface) bool
	walk = func(e iface) bool {
		if comparable && types.Identical(e.t, target.t) && equals(e.t, e.v, target.v) {
			return true
		}
		if m := i.methodNamed(e.t, "Is"); m != nil && m.Signature.Params().Len() == 1 && m.Signature.Results().Len() == 1 {
			if i.decide(call(i, fr, token.NoPos, m, []value{e.v, target})) {
				return true
			}
		}
		for _, u := range i.unwrapErr(fr, e) {
			if walk(u) {
				return true
			}
		}
		return false
	}
	return walk(err)
}

func (i *interpreter) errorsAs(fr *frame, errv, targetv value) value {
	err, target := errv.(iface), targetv.(iface)
	if err.t == nil {
		return false
	}
	pt, ok := target.t.Underlying().(*types.Pointer)
	if target.t == nil || !ok || target.v == nil {
		panic(targetPanic{"errors: target must be a non-nil pointer"})
	}
	elem := pt.Elem()
	_, isIface := elem.Underlying().(*types.Interface)
	cell := target.v.(*value)
	var walk func(e iface) bool
	walk = func(e iface) bool {
		if types.AssignableTo(e.t, elem) {
			if isIface {
				*cell = e
			} else {
				*cell = e.v
			}
			return true
		}
		if m := i.methodNamed(e.t, "As"); m != nil && m.Signature.Params().Len() == 1 && m.Signature.Results().Len() == 1 {
			if i.decide(call(i, fr, token.NoPos, m, []value{e.v, target})) {
				return true
			}
		}
		for _, u := range i.unwrapErr(fr, e) {
			if walk(u) {
				return true
			}
		}
		return false
	}
	return walk(err)
}
