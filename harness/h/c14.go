package h

import (
	"github.com/hattya/go.sh/ast"
	"github.com/hattya/go.sh/interp"
	"verifharness/nd"
)

// C14 — field splitting cuts exactly at unquoted IFS characters.
//
// A word is built directly as ast nodes from S segments; each segment has up
// to two symbolic bytes and is quoted or not by choice. IFS is unset, empty,
// the default, or 1..3 symbolic bytes. The reference splitter below is written
// from the statement: cut at every unquoted IFS byte, then drop the fields that
// are empty and contain nothing quoted (which subsumes white-space collapsing
// and trimming).

type seg struct {
	text   string
	quoted bool
}

type rfield struct {
	text   string
	quoted bool
}

func refSplit(segs []seg, ifs string) []string {
	var fields []rfield
	cur := rfield{}
	for _, s := range segs {
		if s.quoted {
			cur.text += s.text
			cur.quoted = true
			continue
		}
		for i := 0; i < len(s.text); i++ {
			c := s.text[i]
			if inBytes(ifs, c) {
				fields = append(fields, cur)
				cur = rfield{}
			} else {
				cur.text += string(rune(c))
			}
		}
	}
	fields = append(fields, cur)
	var out []string
	for _, f := range fields {
		if f.text != "" || f.quoted {
			out = append(out, f.text)
		}
	}
	return out
}

func inBytes(set string, c byte) bool {
	for i := 0; i < len(set); i++ {
		if set[i] == c {
			return true
		}
	}
	return false
}

func buildWord(segs []seg) ast.Word {
	var w ast.Word
	for _, s := range segs {
		if s.quoted {
			w = append(w, &ast.Quote{Tok: "'", Value: ast.Word{&ast.Lit{Value: s.text}}})
		} else {
			w = append(w, &ast.Lit{Value: s.text})
		}
	}
	return w
}

func c14(nseg, maxLen, ifsMax int) {
	segs := make([]seg, nseg)
	for i := range segs {
		segs[i].quoted = nd.Choice(2) == 1
		segs[i].text = nd.Str(nd.Choice(maxLen + 1))
		if i == 0 && !segs[i].quoted && len(segs[i].text) > 0 {
			nd.Assume(segs[i].text[0] != '~') // tilde expansion is another property
		}
	}
	env := interp.NewExecEnv("sh")
	env.Opts = interp.NoGlob
	ifs := interp.IFS
	switch k := nd.Choice(3 + ifsMax); k {
	case 0:
		env.Unset("IFS")
		nd.Cover("ifs-unset")
	case 1:
		env.Set("IFS", "")
		ifs = ""
		nd.Cover("ifs-empty")
	case 2:
		nd.Cover("ifs-default")
	default:
		ifs = nd.Str(k - 2)
		env.Set("IFS", ifs)
		nd.Cover("ifs-symbolic")
	}
	got, err := env.Expand(buildWord(segs), 0)
	want := refSplit(segs, ifs)
	nd.Assert(err == nil, "field splitting reports no error")
	nd.Assert(len(got) == len(want), "number of fields")
	if len(got) == len(want) {
		for i := range got {
			nd.Assert(got[i] == want[i], "field content")
		}
	}
	obs := ""
	for _, s := range segs {
		if s.quoted {
			obs += "'" + s.text + "'"
		} else {
			obs += s.text
		}
	}
	nd.Observe(obs + " IFS=" + ifs)
	for _, f := range got {
		nd.Observe(f)
	}
}

func C14_S2() { c14(2, 2, 2) }
func C14_S3() { c14(3, 2, 2) }
func C14_S4() { c14(4, 1, 3) }
func C14_S6() { c14(6, 1, 2) }

// C14_Multibyte: IFS containing a multi-byte character, word with that
// character unquoted and quoted.
func C14_Multibyte() {
	env := interp.NewExecEnv("sh")
	env.Opts = interp.NoGlob
	env.Set("IFS", "é")
	b := nd.Str(1)
	w := ast.Word{&ast.Lit{Value: "aé" + b + "éé"}, &ast.Quote{Tok: "'", Value: ast.Word{&ast.Lit{Value: "é"}}}}
	got, err := env.Expand(w, 0)
	nd.Assert(err == nil && len(got) == 3, "multi-byte IFS character delimits")
	if len(got) == 3 {
		nd.Assert(got[0] == "a" && got[1] == b && got[2] == "é", "multi-byte IFS fields")
	}
}

// c14mb: the same statement at character level: segments and IFS are made of
// symbolic characters over {a , blank é U+3000 U+00A0} (multi-byte characters
// that are, and are not, white space), so IFS white space of several bytes
// occurs at the start of the text, after another delimiter and at the end.
const c14Runes = "a, é　 "

func symRunes(n int) string {
	s := ""
	for i := 0; i < n; i++ {
		s += string(nd.RuneIn(c14Runes))
	}
	return s
}

func refSplitRunes(segs []seg, ifs string) []string {
	var fields []rfield
	cur := rfield{}
	for _, s := range segs {
		if s.quoted {
			cur.text += s.text
			cur.quoted = true
			continue
		}
		for _, r := range s.text {
			cut := false
			for _, d := range ifs {
				if d == r {
					cut = true
				}
			}
			if cut {
				fields = append(fields, cur)
				cur = rfield{}
			} else {
				cur.text += string(r)
			}
		}
	}
	fields = append(fields, cur)
	var out []string
	for _, f := range fields {
		if f.text != "" || f.quoted {
			out = append(out, f.text)
		}
	}
	return out
}

func c14mb(nseg, maxLen, ifsLen int) {
	segs := make([]seg, nseg)
	for i := range segs {
		segs[i].quoted = nd.Choice(2) == 1
		segs[i].text = symRunes(nd.Choice(maxLen + 1))
	}
	env := interp.NewExecEnv("sh")
	env.Opts = interp.NoGlob
	ifs := symRunes(ifsLen)
	env.Set("IFS", ifs)
	got, err := env.Expand(buildWord(segs), 0)
	want := refSplitRunes(segs, ifs)
	obs := ""
	for _, s := range segs {
		if s.quoted {
			obs += "'" + s.text + "'"
		} else {
			obs += s.text
		}
	}
	nd.Observe(obs + " IFS=" + ifs)
	nd.Assert(err == nil, "field splitting reports no error")
	nd.Assert(len(got) == len(want), "number of fields (multi-byte IFS)")
	if len(got) == len(want) {
		for i := range got {
			nd.Assert(got[i] == want[i], "field content (multi-byte IFS)")
		}
	}
}

func C14_MB2()   { c14mb(2, 2, 2) }
func C14_MB3()   { c14mb(3, 2, 2) }
func C14_MB1L4() { c14mb(1, 4, 2) }

// C14_QuotedAt: "a quoted part, even an empty one, always contributes a
// field", next to "$@": a double-quoted word of up to three parts drawn from
// empty expansions, "$@", "${@}", "$*", a literal and a variable whose value
// contains IFS characters, with 0..3 positional parameters (one of them may
// be empty, one contains a blank). Reference: POSIX 2.5.2 — "$@" generates one
// field per parameter, joined to what precedes and follows; with no
// parameters it generates nothing, but the other quoted parts (even null
// ones) still produce a field.
func C14_QuotedAt() {
	nparts := nd.Choice(4)
	params := [][]string{{}, {"p"}, {""}, {"p", "q r"}, {"", "q"}, {"p", "", "r"}}[nd.Choice(6)]
	env := interp.NewExecEnv("sh", params...)
	env.Opts = interp.NoGlob
	env.Set("e", "")
	env.Set("v", "b c")
	last := nd.Str(1) // the last parameter gets a symbolic suffix
	if len(params) > 0 {
		env.Args[len(env.Args)-1] += last
		params = append([]string{}, env.Args[1:]...)
	}
	var parts ast.Word
	cur := ""
	var fields []string
	others, expanded := 0, false
	obs := "\""
	for k := 0; k < nparts; k++ {
		switch nd.Choice(7) {
		case 0:
			parts = append(parts, mkParam("x", ":-", ast.Word{}))
			obs += "${x:-}"
			others++
		case 1:
			parts = append(parts, &ast.ParamExp{Name: &ast.Lit{Value: "e"}})
			obs += "$e"
			others++
		case 2:
			parts = append(parts, &ast.Lit{Value: "a"})
			obs += "a"
			cur += "a"
			others++
		case 3:
			parts = append(parts, &ast.ParamExp{Name: &ast.Lit{Value: "v"}})
			obs += "$v"
			cur += "b c"
			others++
		case 4:
			parts = append(parts, &ast.ParamExp{Name: &ast.Lit{Value: "*"}})
			obs += "$*"
			for j, p := range params {
				if j > 0 {
					cur += " "
				}
				cur += p
			}
			others++
		default:
			if nd.Choice(2) == 0 {
				parts = append(parts, &ast.ParamExp{Name: &ast.Lit{Value: "@"}})
				obs += "$@"
			} else {
				parts = append(parts, mkParam("@", "", nil))
				obs += "${@}"
			}
			for j, p := range params {
				if j > 0 {
					fields = append(fields, cur)
					cur = ""
				}
				cur += p
				expanded = true
			}
		}
	}
	if others > 0 || expanded || nparts == 0 {
		fields = append(fields, cur)
	}
	nd.Observe(obs + "\" #" + itoa(len(params)))
	got, err := env.Expand(ast.Word{&ast.Quote{Tok: `"`, Value: parts}}, 0)
	nd.Assert(err == nil, "expansion succeeds")
	if err != nil {
		return
	}
	nd.Assert(len(got) == len(fields), "number of fields of a double-quoted word containing $@")
	if len(got) == len(fields) {
		for k := range got {
			nd.Assert(got[k] == fields[k], "field content of a double-quoted word containing $@")
		}
	}
}

// C14_Len: the result of an unquoted ${#x} is subject to field splitting like
// any other expansion: with a digit in IFS its digits are cut.
func C14_Len() {
	n := []int{3, 10, 12, 101}[nd.Choice(4)]
	val := ""
	for k := 0; k < n; k++ {
		val += "v"
	}
	env := interp.NewExecEnv("sh")
	env.Opts = interp.NoGlob
	env.Set("x", val)
	ifs := nd.StrIn(1, "012 ,")
	env.Set("IFS", ifs)
	quoted := nd.Choice(2) == 1
	pre, post := nd.Choice(2) == 1, nd.Choice(2) == 1
	pe := &ast.ParamExp{Braces: true, Name: &ast.Lit{Value: "x"}, Op: "#"}
	var w ast.Word
	var segs []seg
	if pre {
		w = append(w, &ast.Lit{Value: "a"})
		segs = append(segs, seg{"a", true})
	}
	if quoted {
		w = append(w, &ast.Quote{Tok: `"`, Value: ast.Word{pe}})
	} else {
		w = append(w, pe)
	}
	segs = append(segs, seg{itoa(n), quoted})
	if post {
		w = append(w, &ast.Lit{Value: "b"})
		segs = append(segs, seg{"b", true})
	}
	got, err := env.Expand(w, 0)
	want := refSplit(segs, ifs)
	nd.Observe(itoa(n) + " IFS=" + ifs)
	nd.Assert(err == nil, "field splitting reports no error")
	nd.Assert(len(got) == len(want), "number of fields of a word containing ${#x}")
	if len(got) == len(want) {
		for i := range got {
			nd.Assert(got[i] == want[i], "field content of a word containing ${#x}")
		}
	}
}
