package h

import (
	"github.com/hattya/go.sh/ast"
	"github.com/hattya/go.sh/parser"
	"verifharness/nd"
)

// C09 — layout is inert.
//
// Layout templates mark the places where layout may change without changing
// the program:
//   ·  a blank between two tokens (rendered as one space)
//   §  a ';' separator that may also be a newline (rendered as "; ")
//   ¶  a newline where the grammar has `linebreak` or that ends a command
// A transformation is applied at one marked place (engine-enumerated); the
// inserted characters are symbolic (a blank is ' ' or tab; comment text is any
// two runes but newline). The untransformed parse is the oracle.

var LayoutTemplates = []string{
	"a·b·c",
	"a=1·b·<f·>g",
	"!·a·|·b",
	"a·&&·b·||·c",
	"a§b·&·c",
	"(·a§b·)",
	"{·a§b§}",
	"for·i·in·a·b§do·c§done",
	"for·i§do·c§done",
	"case·x·in·a)·b·;;·c|d)·e·;;·esac",
	"if·a§then·b§elif·c§then·d§else·e§fi",
	"while·a§do·b§done",
	"until·a§do·b§done",
	"f()·{·a§}",
	"a·'b c'·\"d e\"·$x·${y:-z}",
	"a·$(b·c)·`d·e`",
	"a·|¶b",
	"a·&&¶b",
	"if·a¶then¶b¶fi",
	"{¶a¶b¶}",
	"case·x·in¶a)¶b¶;;¶esac",
	"for·i·in·a¶do¶b¶done",
	"a¶b",
	"((1·+·2))¶b",
	"(a)¶b·c",
	"{·a§}¶>f·b",
	"a·&¶b",
	"((1·+·2))§(·(a))",
	"a·<<E\nx\nE\n",
	"{·a·<<E;·}\nx\nE\n",
	"a·<<E·&&·b\nx\nE\n",
	"{·# one\na·$(b·# two\n)·# three\n}",
	"a·&&·# one\nb·|·# two\nc·$(d·# three\n)·# four\n",
}

// nonASCIIWordRunes: the non-ASCII representatives of D; all of them are
// ordinary word characters for the shell (only space and tab are blanks).
const nonASCIIWordRunes = "é世𝒳٣\u00a0\u0085\u3000×\ufffd\U0010ffff"

type slot struct {
	at   int // index in the rendered text where the slot's rendering starts
	kind rune
}

func renderLayout(t string) ([]rune, []slot) { return renderLayoutSub(t, -1, 0) }

// wordStarts returns the indices (in runes) of the one-letter words a..e of a
// layout template.
func wordStarts(t string) []int {
	tr := []rune(t)
	isL := func(r rune) bool { return r >= 'a' && r <= 'z' || r >= 'A' && r <= 'Z' || r >= '0' && r <= '9' }
	var out []int
	for i, r := range tr {
		if r < 'a' || r > 'e' {
			continue
		}
		if i > 0 && (isL(tr[i-1]) || tr[i-1] == '$' || tr[i-1] == '{' || tr[i-1] == '<') {
			continue
		}
		if i+1 < len(tr) && (isL(tr[i+1]) || tr[i+1] == '=' || tr[i+1] == '(') {
			continue
		}
		out = append(out, i)
	}
	return out
}

// renderLayoutSub renders t; the rune at index subAt (if any) is replaced by sub.
func renderLayoutSub(t string, subAt int, sub rune) ([]rune, []slot) {
	var out []rune
	var slots []slot
	for i, r := range []rune(t) {
		if i == subAt {
			out = append(out, sub)
			continue
		}
		switch r {
		case '·':
			slots = append(slots, slot{len(out), r})
			out = append(out, ' ')
		case '§':
			slots = append(slots, slot{len(out), r})
			out = append(out, ';', ' ')
		case '¶':
			slots = append(slots, slot{len(out), r})
			out = append(out, '\n')
		default:
			out = append(out, r)
		}
	}
	return out, slots
}

func parseStream(src []rune) ([]ast.Command, []*ast.Comment, error) {
	s := NewScanner(src)
	var all []ast.Command
	var comm []*ast.Comment
	for n := 0; n < 64; n++ {
		cmds, comments, err := parser.ParseCommands(nil, "src", s)
		nd.Drain()
		comm = append(comm, comments...)
		if err != nil {
			return all, comm, err
		}
		all = append(all, cmds...)
		if s.I >= len(s.R) {
			return all, comm, nil
		}
	}
	nd.Fail("parsing the stream does not terminate")
	return all, comm, nil
}

// commentText: two symbolic runes, or a concrete text while another dimension
// of the harness is symbolic.
func commentText(fixed bool) []rune {
	if fixed {
		return []rune("c#")
	}
	c := []rune{nd.Rune(), nd.Rune()}
	nd.Assume(nd.And(c[0] != '\n', c[1] != '\n'))
	return c
}

func C09_Layout() {
	t := LayoutTemplates[nd.Choice(len(LayoutTemplates))]
	// one of the words may be a symbolic non-ASCII character (letters, digits
	// and the spaces of D that are not blanks of the shell): what follows a
	// layout position is then not an ASCII word
	ws := wordStarts(t)
	subAt, sub := -1, rune(0)
	if k := nd.Choice(len(ws) + 1); k < len(ws) {
		subAt, sub = ws[k], nd.RuneIn(nonASCIIWordRunes)
		nd.Cover("non-ascii-word")
	}
	fixedComment := subAt >= 0
	base, slots := renderLayoutSub(t, subAt, sub)
	cmds0, comm0, err0 := parseStream(base)
	nd.Assert(err0 == nil, "the layout template parses")
	if err0 != nil {
		nd.Observe(string(base))
		return
	}
	// one transformation at one place (or at the end of the input)
	k := nd.Choice(len(slots) + 1)
	var out []rune
	var added []rune // text of the inserted comment, if any
	if k == len(slots) {
		out = append(out, base...)
		switch nd.Choice(3) {
		case 0:
			added = commentText(fixedComment)
			out = append(append(append(out, ' ', '#'), added...))
			nd.Cover("comment-at-end")
		case 1:
			out = append(out, '\n')
		case 2:
			out = append(out, nd.RuneIn(" \t"))
		}
	} else {
		sl := slots[k]
		out = append(out, base[:sl.at]...)
		rest := base[sl.at:]
		switch sl.kind {
		case '·':
			rest = rest[1:]
			switch nd.Choice(4) {
			case 0: // another blank, before or after
				out = append(out, ' ', nd.RuneIn(" \t"))
				nd.Cover("extra-blank")
			case 1: // a tab instead of the space
				out = append(out, '\t')
			case 2: // backslash-newline between the tokens
				out = append(out, ' ', '\\', '\n')
				nd.Cover("continuation")
			case 3:
				out = append(out, ' ', '\\', '\n', nd.RuneIn(" \t"))
			}
		case '§':
			rest = rest[2:]
			switch nd.Choice(4) {
			case 0: // newline for semicolon
				out = append(out, '\n')
				nd.Cover("newline-for-semicolon")
			case 1: // comment before that newline
				added = commentText(fixedComment)
				out = append(append(append(out, ' ', '#'), added...), '\n')
				nd.Cover("comment-before-newline")
			case 2: // semicolon, blanks
				out = append(out, ' ', ';', nd.RuneIn(" \t"))
			case 3: // newline and a blank line
				out = append(out, '\n', '\n')
				nd.Cover("blank-line")
			}
		case '¶':
			rest = rest[1:]
			switch nd.Choice(3) {
			case 0: // blank line
				out = append(out, '\n', nd.RuneIn(" \t"), '\n')
				nd.Cover("blank-line")
			case 1: // comment before the newline
				added = commentText(fixedComment)
				out = append(append(append(out, ' ', '#'), added...), '\n')
				nd.Cover("comment-before-newline")
			case 2: // a comment line after the newline
				added = commentText(fixedComment)
				out = append(append(append(out, '\n', '#'), added...), '\n')
				nd.Cover("comment-line")
			}
		}
		out = append(out, rest...)
	}
	nd.Observe(string(out))
	cmds1, comm1, err1 := parseStream(out)
	nd.Assert(err1 == nil, "layout changes do not turn an accepted program into a rejected one")
	if err1 != nil {
		return
	}
	nd.Assert(SkelEq(cmds1) == SkelEq(cmds0), "layout changes leave the parsed program unchanged")
	want := len(comm0)
	if added != nil {
		want++
	}
	nd.Assert(len(comm1) == want, "every added comment is returned exactly once")
	// (positions restart with every ParseCommands call: the order is checked on the text)
	order := ""
	for _, c := range comm1 {
		order += "#" + c.Text + "\n"
	}
	nd.Assert(order == commentsInOrder(out), "comments are returned in source order")
	if added != nil && len(comm1) == want {
		found := false
		for _, c := range comm1 {
			if c.Text == string(added) {
				found = true
			}
		}
		nd.Assert(found, "the added comment is returned with its text")
	}
}

// commentsInOrder lists the comments of a layout text in source order (a
// comment starts at a '#' that begins a token outside quotes and here-document
// bodies; layout templates have no '#' elsewhere except inside ${ } / words).
func commentsInOrder(src []rune) string {
	out := ""
	inS, inD := false, false
	for i := 0; i < len(src); i++ {
		c := src[i]
		switch {
		case inS:
			if c == '\'' {
				inS = false
			}
		case c == '\\':
			i++
		case inD:
			if c == '"' {
				inD = false
			}
		case c == '\'':
			inS = true
		case c == '"':
			inD = true
		case c == '#' && (i == 0 || src[i-1] == ' ' || src[i-1] == '\t' || src[i-1] == '\n' || src[i-1] == ';' || src[i-1] == '(' || src[i-1] == '|' || src[i-1] == '&'):
			j := i + 1
			for j < len(src) && src[j] != '\n' {
				j++
			}
			out += "#" + string(src[i+1:j]) + "\n"
			i = j - 1
		}
	}
	return out
}
