package h

import (
	"bufio"
	"io"

	"github.com/hattya/go.sh/parser"
	"verifharness/nd"
)

// C10 — a failing source reader is reported as that failure.
//
// The fault position k is a solver variable: the scanner starts failing once
// its cursor reaches k. Whenever the reader actually returned the injected
// error during the call, ParseCommands must return a non-nil error that is
// that error.

func isErr(err, target error) bool {
	for err != nil {
		if err == target {
			return true
		}
		u, ok := err.(interface{ Unwrap() error })
		if !ok {
			return false
		}
		err = u.Unwrap()
	}
	return false
}

func c10(r []rune) {
	s := NewScanner(r)
	s.FailAt = nd.IntRange(0, len(r))
	_, _, err := parser.ParseCommands(nil, "src", s)
	failed := s.Failed // did the reader fail during the call?
	s.Frozen = true
	nd.Drain()
	if !failed {
		nd.Cover("fault-not-reached")
		return
	}
	nd.Cover("fault")
	nd.Assert(err != nil, "a read fault is not reported as success")
	if err != nil {
		nd.Assert(isErr(err, ErrInjected), "the error returned is the reader's error, not a made-up syntax error")
	}
	nd.Observe(errStr(err))
}

// c10Transient: the reader fails exactly once at a symbolic position
// (consuming nothing) and then recovers. The failure must still be reported.
func c10Transient(r []rune) {
	s := NewScanner(r)
	s.FailAt = nd.IntRange(0, len(r))
	s.Once = true
	_, _, err := parser.ParseCommands(nil, "src", s)
	failed := s.Failed
	s.Frozen = true
	nd.Drain()
	if !failed {
		return
	}
	nd.Cover("fault")
	nd.Assert(err != nil, "a transient read fault is not reported as success")
	if err != nil {
		nd.Assert(isErr(err, ErrInjected), "the error returned is the reader's error, not a made-up syntax error")
	}
}

func C10_Transient_T0() { c10Transient([]rune(Templates[nd.Choice(len(Templates))])) }
func C10_Transient_F3() { c10Transient(freeRunes(3, true)) }

func C10_F2() { c10(freeRunes(2, false)) }
func C10_F3() { c10(freeRunes(3, true)) }

// C10_T0: every template x every fault position.
func C10_T0() { c10([]rune(Templates[nd.Choice(len(Templates))])) }

// C10_T1: templates with one symbolic hole x every fault position.
func C10_T1() { c10(holeTemplate()) }

// faultReader is an io.Reader that fails once n bytes have been delivered.
type faultReader struct {
	b      []byte
	i      int
	failAt int
	failed bool
}

func (f *faultReader) Read(p []byte) (int, error) {
	if f.i >= f.failAt {
		f.failed = true
		return 0, ErrInjected
	}
	if f.i >= len(f.b) {
		return 0, io.EOF
	}
	// one byte at a time, so that the fault position is exact
	p[0] = f.b[f.i]
	f.i++
	return 1, nil
}

// C10_Reader: the io.Reader form (through bufio.Reader, interpreted from the
// std source) on concrete templates x every byte position.
func C10_Reader() {
	src := []byte(Templates[nd.Choice(len(Templates))])
	fr := &faultReader{b: src, failAt: nd.Choice(len(src) + 1)}
	var in interface{} = fr
	if nd.Choice(2) == 1 {
		in = bufio.NewReader(fr)
	}
	_, _, err := parser.ParseCommands(nil, "src", in)
	nd.Drain()
	if !fr.failed {
		return
	}
	nd.Cover("fault")
	nd.Assert(err != nil, "a read fault is not reported as success")
	if err != nil {
		nd.Assert(isErr(err, ErrInjected), "the error returned is the reader's error, not a made-up syntax error")
	}
}

// C10_ErrKinds: the identity of the reader's error must not matter: every
// error value other than io.EOF itself is a failure (sentinels of package io
// that resemble an end of input, and an unrelated error whose text is "EOF").
type eofLookalike struct{}

func (eofLookalike) Error() string { return "EOF" }

func c10Kinds(r []rune) {
	kinds := []error{io.ErrUnexpectedEOF, io.ErrClosedPipe, io.ErrNoProgress, eofLookalike{}}
	want := kinds[nd.Choice(len(kinds))]
	s := NewScanner(r)
	s.FailAt = nd.IntRange(0, len(r))
	s.Once = nd.Choice(2) == 1
	s.Err = want
	_, _, err := parser.ParseCommands(nil, "src", s)
	failed := s.Failed
	s.Frozen = true
	nd.Drain()
	if !failed {
		return
	}
	nd.Cover("fault")
	nd.Assert(err != nil, "a read fault is not reported as success, whatever the error value")
	if err != nil {
		nd.Assert(isErr(err, want), "the error returned is the reader's error, whatever the error value")
	}
}

func C10_ErrKinds_T0() { c10Kinds([]rune(Templates[nd.Choice(len(Templates))])) }
func C10_ErrKinds_F2() { c10Kinds(freeRunes(2, false)) }
