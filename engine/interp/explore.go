package interp

// gosx: path exploration by decision-prefix re-execution with a live witness.

import (
	"fmt"
	"go/token"
	"go/types"
	"os"
	"runtime"
	"runtime/debug"
	"sort"
	"strings"
	"sync"
	"time"

	"golang.org/x/tools/go/ssa"
)

type pathAbort struct{}

// engineError: the engine cannot continue this path (unsupported construct,
// solver failure). The path is inconclusive, never a pass.
type engineError struct{ msg string }

func (e engineError) Error() string { return "gosx: " + e.msg }

// rtErr is a Go run-time error raised by the engine on behalf of the program.
type rtErr string

func (e rtErr) Error() string { return "runtime error: " + string(e) }
func (e rtErr) RuntimeError() {}

// dec is one recorded decision: the outcome d of a branch / choice, and for
// concretisation steps the value v that was tested.
type dec struct {
	d int32
	v uint64
}

type workItem struct {
	prefix  []dec
	witness []uint64
}

// ndEntry records one nd.* call of a path, for replay.
type ndEntry struct {
	Kind  string // "var" or "choice"
	Var   int    // variable index (Kind == "var")
	Val   uint64 // concrete value (Kind == "choice")
	Label string
}

// Violation is a counterexample (or an engine-level failure of the program).
type Violation struct {
	Kind    string   `json:"kind"` // assert | panic | process-death | deadlock | budget
	Msg     string   `json:"msg"`
	Site    string   `json:"site,omitempty"`
	Vector  []uint64 `json:"vector"` // values of the nd calls, in call order
	Labels  []string `json:"labels,omitempty"`
	Observe []string `json:"observe,omitempty"`
	Stack   []string `json:"stack,omitempty"`
}

func (v *Violation) Key() string { return v.Kind + "|" + v.Msg + "|" + v.Site }

// Config of one exploration.
type Config struct {
	Harness     string
	Workers     int
	MaxPaths    int
	InstrBudget int64 // per path
	PanicNil    int   // GODEBUG panicnil value modelled (0: recover() returns *runtime.PanicNilError)
	MaxPerKey   int   // violations kept per key
	Deadline    time.Time
	Verbose     bool
	SolverLog   string
	SamplePaths int // number of passing-path samples (witness vectors) to keep
}

// Stats of one exploration.
type Stats struct {
	Paths        int
	Vacuous      int
	Inconclusive int
	InconMsgs    map[string]int
	InconExample string
	Branches     int // decided branch edges (new decisions only, not prefix replays)
	Repaired     int // of those: sibling shown feasible by a concrete model found near the witness (no solver call)
	Choices      int
	Queries      int
	QSat         int
	QUnsat       int
	QUnknown     int
	Asserts      int // assertion obligations queried
	AssertsTriv  int // discharged by simplification / concretely
	SolverTime   time.Duration
	Wall         time.Duration
	Instrs       int64
	Leftover     int // paths that ended with goroutines still alive
	Cover        map[string]int
	Funcs        map[string]int
	Violations   map[string][]*Violation
	ViolCount    map[string]int
	Samples      []Sample
	SolverErrors []string
	TimedOut     bool
	PathCapHit   bool
	MaxVars      int
}

type Sample struct {
	Vector  []uint64 `json:"vector"`
	Labels  []string `json:"labels,omitempty"`
	Observe []string `json:"observe,omitempty"`
	Render  string   `json:"render,omitempty"`
}

type Explorer struct {
	cfg    Config
	prog   *ssa.Program
	hpkg   *ssa.Package
	fn     *ssa.Function
	base   *interpreter // holds the post-init globals shared by all paths
	mu     sync.Mutex
	cond   *sync.Cond
	work   []workItem
	active int
	stop   bool
	st     Stats
}

// pathCtx is the symbolic state of the path being executed by one worker.
type pathCtx struct {
	ex        *Explorer
	S         *solver
	tb        *termTable
	prefix    []dec
	pos       int
	decisions []dec
	witness   []uint64
	pending   []*term // path-condition conjuncts not yet sent to the solver
	pcAll     []*term
	pc        int     // number of conjuncts
	ndlog     []ndEntry
	observe   []string
	observeVals []value
	nchan     int
	cover     map[string]bool
	funcs     map[*ssa.Function]bool
	instrs    int64
	budget    int64
	// outcome
	vacuous      bool
	inconclusive string
	viols        []*Violation
	stuckMsg     string
	budgetHit    bool
	userdata     map[string]value
	known        map[int32]bool // term id -> truth value implied syntactically by the path condition
	bound        uint64         // variables (index < 63) fixed to one value by an equality in the path condition
	cacheHits    int
	repaired     int
	bgPanic      string
	bgPanicVal   interface{}
	branches     int
	choices      int
	asserts      int
	assertsTriv  int
	selectChoice bool
	panicNil     int
	leftover     int
	curFrame     *frame
}

func (p *pathCtx) addPC(c *term) {
	if c.isTrue() {
		return
	}
	p.pending = append(p.pending, c)
	p.pcAll = append(p.pcAll, c)
	p.pc++
	p.learn(c)
}

// repair looks for a model of pc ∧ goal near the current witness by changing
// the value of one variable of goal to a value suggested by the constants of
// goal. A model found this way is a genuine model (every conjunct is
// evaluated concretely); failure means nothing and the solver is asked.
func (p *pathCtx) repair(goal *term) []uint64 {
	m := goal.varMask()
	if m == 0 || m&(1<<63) != 0 {
		return nil
	}
	for len(p.witness) < len(p.tb.vars) {
		p.witness = append(p.witness, 0)
	}
	var consts []uint64
	seen := map[int32]bool{}
	var collect func(t *term)
	collect = func(t *term) {
		if t == nil || seen[t.id] {
			return
		}
		seen[t.id] = true
		if t.op == opConst && t.w != 0 {
			consts = append(consts, t.k)
		}
		collect(t.a)
		collect(t.b)
		collect(t.c)
	}
	collect(goal)
	if len(consts) > 24 {
		consts = consts[:24]
	}
	// constants of the conjuncts that constrain the same variables (e.g. the
	// members of a rune's domain)
	for _, c := range p.pcAll {
		if len(consts) > 64 {
			break
		}
		if c.varMask()&m != 0 {
			collect(c)
		}
	}
	w := make([]uint64, len(p.witness))
	copy(w, p.witness)
	nvars := 0
	for vi := 0; vi < 63 && vi < len(w); vi++ {
		if m&(1<<uint(vi)) == 0 {
			continue
		}
		nvars++
		if nvars > 3 {
			break
		}
		old := w[vi]
		width := p.tb.vars[vi].w
		try := func(val uint64) bool {
			val &= mask(wOr1(width))
			if val == old {
				return false
			}
			w[vi] = val
			p.tb.newModel()
			ok := p.tb.eval(goal, w) != 0
			if ok {
				for _, c := range p.pcAll {
					if c.varMask()&(1<<uint(vi)) != 0 && p.tb.eval(c, w) == 0 {
						ok = false
						break
					}
				}
			}
			if !ok {
				w[vi] = old
			}
			return ok
		}
		found := false
		if width == 0 {
			found = try(old ^ 1)
		}
		for _, k := range consts {
			if found {
				break
			}
			for _, cand := range [...]uint64{k, k + 1, k - 1, old ^ k, old | k, old &^ k} {
				if try(cand) {
					found = true
					break
				}
			}
		}
		if !found && width > 1 {
			for _, cand := range genericCands(old) {
				if try(cand) {
					found = true
					break
				}
			}
		}
		p.tb.newModel()
		if found {
			return w
		}
	}
	// two variables at a time (generic candidates only)
	var vs []int
	for vi := 0; vi < 63 && vi < len(w) && len(vs) < 3; vi++ {
		if m&(1<<uint(vi)) != 0 && p.tb.vars[vi].w > 1 {
			vs = append(vs, vi)
		}
	}
	for a := 0; a < len(vs); a++ {
		for b := a + 1; b < len(vs); b++ {
			va, vb := vs[a], vs[b]
			oa, ob := w[va], w[vb]
			for _, ca := range genericCands(oa) {
				for _, cb := range genericCands(ob) {
					w[va] = ca & mask(p.tb.vars[va].w)
					w[vb] = cb & mask(p.tb.vars[vb].w)
					p.tb.newModel()
					ok := p.tb.eval(goal, w) != 0
					if ok {
						for _, c := range p.pcAll {
							if c.varMask()&(1<<uint(va)|1<<uint(vb)) != 0 && p.tb.eval(c, w) == 0 {
								ok = false
								break
							}
						}
					}
					if ok {
						p.tb.newModel()
						return w
					}
				}
			}
			w[va], w[vb] = oa, ob
		}
	}
	p.tb.newModel()
	return nil
}

func genericCands(old uint64) []uint64 {
	return []uint64{0, 1, 2, 3, 5, 7, 8, 63, 64, ^uint64(0), ^uint64(1), 1 << 62, 1 << 63, 1<<63 - 1,
		0x5555555555555555, 0xAAAAAAAAAAAAAAAA, old + 1, old - 1, -old, ^old, old << 1, old >> 1}
}

// learn records what a new conjunct implies syntactically: the truth of the
// conjunct itself (and of its conjuncts), and variables pinned by v == const.
func (p *pathCtx) learn(c *term) {
	if p.known == nil {
		p.known = map[int32]bool{}
	}
	switch c.op {
	case opNot:
		p.known[c.a.id] = false
		if c.a.op == opOr { // not (a or b) => not a, not b
			p.learn(p.tb.not(c.a.a))
			p.learn(p.tb.not(c.a.b))
		}
		return
	case opAnd:
		p.learn(c.a)
		p.learn(c.b)
	case opEq:
		if c.a.op == opVar && c.b.isConst() && c.a.k < 63 {
			p.bound |= 1 << c.a.k
		} else if c.b.op == opVar && c.a.isConst() && c.b.k < 63 {
			p.bound |= 1 << c.b.k
		}
	}
	p.known[c.id] = true
}

// decided reports whether the path condition already determines c without a
// solver query: c (or its negation) is a recorded conjunct, or every variable
// of c is pinned to a single value (then the witness value is the value).
func (p *pathCtx) decided(c *term) (val, ok bool) {
	if v, ok := p.known[c.id]; ok {
		return v, true
	}
	if c.op == opNot {
		if v, ok := p.known[c.a.id]; ok {
			return !v, true
		}
	}
	if m := c.varMask(); m&(1<<63) == 0 && m&^p.bound == 0 {
		return p.evalBool(c), true
	}
	return false, false
}

func (p *pathCtx) flush() {
	for _, c := range p.pending {
		p.S.assert(p.tb, c)
	}
	p.pending = p.pending[:0]
}

func (p *pathCtx) evalBool(c *term) bool {
	for len(p.witness) < len(p.tb.vars) {
		p.witness = append(p.witness, 0)
	}
	return p.tb.eval(c, p.witness) != 0
}

// fresh creates a new symbolic variable of width w whose witness value
// defaults to def (unless the witness inherited from the solver has one).
func (p *pathCtx) fresh(w uint8, def uint64, label string) *term {
	v := p.tb.newVar(w)
	idx := int(v.k)
	if idx >= len(p.witness) {
		for len(p.witness) < idx {
			p.witness = append(p.witness, 0)
		}
		p.witness = append(p.witness, def&mask(wOr1(w)))
		p.tb.newModel()
	}
	p.ndlog = append(p.ndlog, ndEntry{Kind: "var", Var: idx, Label: label})
	return v
}

// branch decides a symbolic condition: follows the witness, and queues the
// other side if the solver finds it feasible.
func (p *pathCtx) branch(c *term) bool { return p.branchV(c, 0) }

func (p *pathCtx) branchV(c *term, recVal uint64) bool {
	if c.isConst() {
		return c.k != 0
	}
	if v, ok := p.decided(c); ok {
		p.cacheHits++
		return v
	}
	if p.pos < len(p.prefix) {
		take := p.prefix[p.pos].d != 0
		p.pos++
		p.decisions = append(p.decisions, p.prefix[p.pos-1])
		if p.evalBool(c) != take {
			panic(engineError{"replay divergence: witness disagrees with recorded decision (non-deterministic execution?)"})
		}
		if take {
			p.addPC(c)
		} else {
			p.addPC(p.tb.not(c))
		}
		return take
	}
	p.branches++
	take := p.evalBool(c)
	other := c
	if take {
		other = p.tb.not(c)
	}
	var res satResult
	var model []uint64
	if model = p.repair(other); model != nil {
		res = resSat
		p.repaired++
	} else {
		p.flush()
		res, model = p.S.check(p.tb, other, true)
	}
	switch res {
	case resSat:
		alt := make([]dec, len(p.decisions)+1)
		copy(alt, p.decisions)
		alt[len(alt)-1].v = recVal
		if !take {
			alt[len(alt)-1].d = 1
		}
		p.ex.push(workItem{prefix: alt, witness: model})
	case resUnknown:
		d := other.String()
		if len(d) > 300 {
			d = d[:300]
		}
		p.noteInconclusive("solver unknown on branch feasibility: " + d)
	}
	var d int32
	if take {
		d = 1
		p.addPC(c)
	} else {
		p.addPC(p.tb.not(c))
	}
	p.decisions = append(p.decisions, dec{d, recVal})
	p.pos++
	return take
}

// choice is an engine-enumerated decision among n alternatives.
func (p *pathCtx) choice(n int, label string) int {
	if n <= 1 {
		return 0
	}
	var k int32
	if p.pos < len(p.prefix) {
		k = p.prefix[p.pos].d
	} else {
		p.choices++
		for alt := int32(1); alt < int32(n); alt++ {
			a := make([]dec, len(p.decisions)+1)
			copy(a, p.decisions)
			a[len(a)-1].d = alt
			w := make([]uint64, len(p.witness))
			copy(w, p.witness)
			p.ex.push(workItem{prefix: a, witness: w})
		}
	}
	p.pos++
	p.decisions = append(p.decisions, dec{d: k})
	return int(k)
}

// ndChoice is a choice that is part of the replay vector.
func (p *pathCtx) ndChoice(n int, label string) int {
	k := p.choice(n, label)
	p.ndlog = append(p.ndlog, ndEntry{Kind: "choice", Val: uint64(k), Label: label})
	return k
}

// concretize returns the concrete value of t on this path, forking over all
// feasible values (one at a time).
func (p *pathCtx) concretize(t *term) uint64 {
	if t.isConst() {
		return t.k
	}
	for n := 0; ; n++ {
		if n > 300 {
			panic(engineError{fmt.Sprintf("concretisation cap exceeded: t=%s witness=%v pos=%d/%d", t, p.witness, p.pos, len(p.prefix))})
		}
		for len(p.witness) < len(p.tb.vars) {
			p.witness = append(p.witness, 0)
		}
		v := p.tb.eval(t, p.witness)
		if m := t.varMask(); m&(1<<63) == 0 && m&^p.bound == 0 {
			return v // every variable of t is pinned: no decision needed
		}
		if t.w != 0 {
			if val, ok := p.decided(p.tb.eq(t, p.tb.bv(v, t.w))); ok && val {
				return v
			}
		}
		if p.pos < len(p.prefix) {
			v = p.prefix[p.pos].v // replay: the value that was tested then
		}
		var k *term
		if t.w == 0 {
			k = p.tb.boolc(v != 0)
		} else {
			k = p.tb.bv(v, t.w)
		}
		if p.branchV(p.tb.eq(t, k), v) {
			return v
		}
		// (only reachable while replaying a prefix in which t != v was taken)
	}
}

func (p *pathCtx) assume(c *term) {
	if c.isTrue() {
		return
	}
	if c.isFalse() {
		p.vacuous = true
		panic(pathAbort{})
	}
	if p.evalBool(c) {
		p.addPC(c)
		return
	}
	if p.pos < len(p.prefix) {
		panic(engineError{"replay divergence: witness violates an assumption inside the prefix"})
	}
	p.flush()
	res, model := p.S.check(p.tb, c, true)
	switch res {
	case resSat:
		p.witness = model
		p.tb.newModel()
		p.addPC(c)
	case resUnsat:
		p.vacuous = true
		panic(pathAbort{})
	default:
		p.noteInconclusive("solver unknown on assume")
		panic(pathAbort{})
	}
}

func (p *pathCtx) noteInconclusive(msg string) {
	if p.inconclusive == "" {
		p.inconclusive = msg
	}
}

func (p *pathCtx) vector(model []uint64) ([]uint64, []string) {
	vec := make([]uint64, len(p.ndlog))
	labels := make([]string, len(p.ndlog))
	for i, e := range p.ndlog {
		labels[i] = e.Label
		if e.Kind == "choice" {
			vec[i] = e.Val
		} else if e.Var < len(model) {
			vec[i] = model[e.Var]
		}
	}
	return vec, labels
}

func (p *pathCtx) violation(kind, msg, site string, model []uint64) {
	if model == nil {
		model = p.witness
	}
	vec, labels := p.vector(model)
	v := &Violation{Kind: kind, Msg: msg, Site: site, Vector: vec, Labels: labels, Observe: append([]string(nil), p.observe...)}
	if p.curFrame != nil {
		v.Stack = stackOf(p.curFrame, 12)
	}
	p.viols = append(p.viols, v)
}

// assert checks c on every value satisfying the path condition.
func (p *pathCtx) assert(c *term, msg string, site string) {
	if c.isTrue() {
		p.assertsTriv++
		return
	}
	if c.isFalse() {
		p.assertsTriv++
		p.violation("assert", msg, site, nil)
		return
	}
	p.asserts++
	if !p.evalBool(c) {
		p.violation("assert", msg, site, nil)
		return
	}
	p.flush()
	res, model := p.S.check(p.tb, p.tb.not(c), true)
	switch res {
	case resSat:
		p.violation("assert", msg, site, model)
	case resUnknown:
		p.noteInconclusive("solver unknown on assertion: " + msg)
	}
}

// ---------------------------------------------------------------- explorer

func (ex *Explorer) push(it workItem) {
	ex.mu.Lock()
	ex.work = append(ex.work, it)
	ex.mu.Unlock()
	ex.cond.Signal()
}

func (ex *Explorer) pop() (workItem, bool) {
	ex.mu.Lock()
	defer ex.mu.Unlock()
	for {
		if ex.stop {
			return workItem{}, false
		}
		if n := len(ex.work); n > 0 {
			it := ex.work[n-1]
			ex.work = ex.work[:n-1]
			ex.active++
			return it, true
		}
		if ex.active == 0 {
			ex.cond.Broadcast()
			return workItem{}, false
		}
		ex.cond.Wait()
	}
}

func (ex *Explorer) done(p *pathCtx, instrs int64) {
	ex.mu.Lock()
	defer ex.mu.Unlock()
	ex.active--
	st := &ex.st
	st.Paths++
	st.Instrs += instrs
	st.Branches += p.branches
	st.Repaired += p.repaired
	st.Choices += p.choices
	st.Asserts += p.asserts
	st.AssertsTriv += p.assertsTriv
	if len(p.tb.vars) > st.MaxVars {
		st.MaxVars = len(p.tb.vars)
	}
	if p.leftover > 0 {
		st.Leftover++
	}
	if p.vacuous {
		st.Vacuous++
	}
	if p.inconclusive != "" {
		st.Inconclusive++
		key := p.inconclusive
		if i := strings.IndexByte(key, '\n'); i >= 0 {
			key = key[:i]
			if st.InconExample == "" {
				st.InconExample = p.inconclusive
			}
		}
		st.InconMsgs[key]++
	}
	for l := range p.cover {
		st.Cover[l]++
	}
	for f := range p.funcs {
		st.Funcs[f.String()]++
	}
	for _, v := range p.viols {
		k := v.Key()
		st.ViolCount[k]++
		if len(st.Violations[k]) < ex.cfg.MaxPerKey {
			st.Violations[k] = append(st.Violations[k], v)
		}
	}
	if !p.vacuous && p.inconclusive == "" && len(p.viols) == 0 && len(st.Samples) < ex.cfg.SamplePaths {
		// spread samples: keep the first few and then every 2^k-th
		vec, labels := p.vector(p.witness)
		st.Samples = append(st.Samples, Sample{Vector: vec, Labels: labels, Observe: append([]string(nil), p.observe...)})
	}
	if ex.cfg.MaxPaths > 0 && st.Paths >= ex.cfg.MaxPaths && !ex.stop {
		ex.stop = true
		st.PathCapHit = len(ex.work) > 0 || ex.active > 0
		ex.cond.Broadcast()
	}
	if !ex.cfg.Deadline.IsZero() && time.Now().After(ex.cfg.Deadline) && !ex.stop {
		ex.stop = true
		st.TimedOut = len(ex.work) > 0 || ex.active > 0
		ex.cond.Broadcast()
	}
	if ex.active == 0 && len(ex.work) == 0 {
		ex.cond.Broadcast()
	}
}

// Explore runs harness function cfg.Harness of package hpkg over all paths.
func Explore(hpkg *ssa.Package, cfg Config) (*Stats, error) {
	fn := hpkg.Func(cfg.Harness)
	if fn == nil {
		return nil, fmt.Errorf("no harness function %s in %s", cfg.Harness, hpkg.Pkg.Path())
	}
	if cfg.Workers <= 0 {
		cfg.Workers = runtime.NumCPU()
	}
	if cfg.InstrBudget <= 0 {
		cfg.InstrBudget = 5_000_000
	}
	if cfg.MaxPerKey <= 0 {
		cfg.MaxPerKey = 3
	}
	ex := &Explorer{cfg: cfg, prog: hpkg.Prog, hpkg: hpkg, fn: fn}
	ex.cond = sync.NewCond(&ex.mu)
	ex.st = Stats{InconMsgs: map[string]int{}, Cover: map[string]int{}, Funcs: map[string]int{}, Violations: map[string][]*Violation{}, ViolCount: map[string]int{}}
	t0 := time.Now()
	base, err := newBaseInterpreter(hpkg)
	if err != nil {
		return nil, err
	}
	ex.base = base
	ex.work = []workItem{{}}
	var wg sync.WaitGroup
	var smu sync.Mutex
	for w := 0; w < cfg.Workers; w++ {
		wg.Add(1)
		go func(id int) {
			defer wg.Done()
			S := newSolver()
			if cfg.SolverLog != "" && id == 0 {
				f, _ := os.Create(cfg.SolverLog)
				S.log = f
				defer f.Close()
			}
			defer func() {
				smu.Lock()
				ex.st.Queries += S.Queries
				ex.st.QSat += S.Sat
				ex.st.QUnsat += S.Unsat
				ex.st.QUnknown += S.Unknown
				ex.st.SolverTime += S.Time
				ex.st.SolverErrors = append(ex.st.SolverErrors, S.errLines...)
				smu.Unlock()
				S.close()
			}()
			for {
				it, ok := ex.pop()
				if !ok {
					return
				}
				p, instrs := ex.runPath(S, it)
				ex.done(p, instrs)
			}
		}(w)
	}
	wg.Wait()
	ex.st.Wall = time.Since(t0)
	if len(ex.st.SolverErrors) > 8 {
		ex.st.SolverErrors = ex.st.SolverErrors[:8]
	}
	return &ex.st, nil
}

func stackOf(fr *frame, max int) []string {
	var out []string
	for f := fr; f != nil && len(out) < max; f = f.caller {
		out = append(out, f.fn.String())
	}
	return out
}

func siteOf(fr *frame) string {
	// innermost frame that belongs to go.sh (or the harness)
	for f := fr; f != nil; f = f.caller {
		if f.fn.Pkg != nil && userPkg(f.fn.Pkg) {
			return f.fn.String()
		}
	}
	if fr != nil {
		return fr.fn.String()
	}
	return ""
}

// runPath executes the harness once along the decisions of it.
func (ex *Explorer) runPath(S *solver, it workItem) (p *pathCtx, instrs int64) {
	S.newPath()
	p = &pathCtx{ex: ex, S: S, tb: newTermTable(), prefix: it.prefix, witness: it.witness,
		cover: map[string]bool{}, funcs: map[*ssa.Function]bool{}, budget: ex.cfg.InstrBudget, panicNil: ex.cfg.PanicNil, userdata: map[string]value{}}
	i := ex.base.fork(p)
	defer func() {
		r := recover()
		instrs = p.instrs
		i.sched.mainG.exited = true
		p.leftover = 0
		for _, g := range i.sched.all {
			if !g.main && !g.exited {
				p.leftover++
			}
		}
		i.sched.teardown()
		if p.bgPanic != "" {
			p.violation("process-death", p.bgPanic, "", nil)
			return
		}
		if p.budgetHit {
			p.violation("budget", fmt.Sprintf("instruction budget of %d exceeded (possible non-termination)", p.budget), siteOf(p.curFrame), nil)
			return
		}
		switch r := r.(type) {
		case nil:
		case pathAbort:
			if p.stuckMsg != "" {
				p.violation("deadlock", p.stuckMsg, "", nil)
			}
		case deadlock:
			p.violation("deadlock", r.msg, "", nil)
		case engineError:
			p.noteInconclusive(r.msg)
		case budgetExceeded:
			p.violation("budget", fmt.Sprintf("instruction budget of %d exceeded (possible non-termination)", p.budget), siteOf(p.curFrame), nil)
		case targetPanic:
			p.violation("panic", "panic: "+panicValString(r.v), siteOf(p.curFrame), nil)
		case runtime.Error:
			if _, ok := r.(rtErr); !ok && !isTargetRuntimeError(r) {
				// a host runtime error raised outside the modelled operations is an engine bug
				p.noteInconclusive("engine runtime error: " + r.Error() + "\n" + string(debug.Stack()))
				return
			}
			p.violation("panic", r.Error(), siteOf(p.curFrame), nil)
		case string:
			p.violation("panic", "runtime error: "+r, siteOf(p.curFrame), nil)
		default:
			p.noteInconclusive(fmt.Sprintf("engine panic %T: %v\n%s", r, r, debug.Stack()))
		}
	}()
	call(i, nil, token.NoPos, ex.fn, nil)
	return
}

// isTargetRuntimeError: host runtime errors that faithfully mirror the
// interpreted program's own run-time panic (index, slice bounds, nil deref,
// divide, type assertion on interpreter values do not count).
func isTargetRuntimeError(r runtime.Error) bool {
	msg := r.Error()
	for _, pfx := range []string{"runtime error: index out of range", "runtime error: slice bounds out of range",
		"runtime error: integer divide by zero", "runtime error: invalid memory address or nil pointer dereference",
		"runtime error: makeslice", "runtime error: hash of unhashable"} {
		if strings.HasPrefix(msg, pfx) {
			return true
		}
	}
	return false
}

type budgetExceeded struct{}

// ---------------------------------------------------------------- base interpreter

// InitAllow lists the non-go.sh packages whose init functions are interpreted.
var InitAllow = map[string]bool{
	"io": true, "bufio": true, "unicode/utf8": true, "strconv": true, "strings": true, "bytes": true,
	"errors": false, "sort": true, "math/bits": true, "slices": true, "cmp": true, "path": true, "maps": true,
}

func userPkg(p *ssa.Package) bool {
	if p == nil || p.Pkg == nil {
		return false
	}
	path := p.Pkg.Path()
	return strings.HasPrefix(path, "github.com/hattya/go.sh") || strings.HasPrefix(path, "verifharness")
}

func newBaseInterpreter(hpkg *ssa.Package) (i *interpreter, err error) {
	i = &interpreter{
		prog:    hpkg.Prog,
		globals: make(map[*ssa.Global]*value),
		sizes:   &types.StdSizes{WordSize: 8, MaxAlign: 8},
	}
	runtimePkg := i.prog.ImportedPackage("runtime")
	if runtimePkg == nil {
		return nil, fmt.Errorf("ssa.Program doesn't include runtime package")
	}
	i.runtimeErrorString = runtimePkg.Type("errorString").Object().Type()
	if t := runtimePkg.Type("PanicNilError"); t != nil {
		i.panicNilError = t.Object().Type()
	}
	initReflect(i)
	for _, pkg := range i.prog.AllPackages() {
		for _, m := range pkg.Members {
			if v, ok := m.(*ssa.Global); ok {
				cell := zero(mustDeref(v.Type()))
				if pkg.Pkg.Path() == "unicode" {
					if t := hostUnicodeTable(v.Name()); t != nil && types.TypeString(mustDeref(v.Type()), nil) == "*unicode.RangeTable" {
						var tv value = hostRangeTable{v.Name(), t}
						cell = &tv
					}
				}
				i.globals[v] = &cell
			}
		}
	}
	// run package initialisation concretely, once
	p := &pathCtx{tb: newTermTable(), cover: map[string]bool{}, funcs: map[*ssa.Function]bool{}, budget: 2_000_000_000}
	i.px = p
	i.sched = newSched(p)
	defer func() {
		if r := recover(); r != nil {
			err = fmt.Errorf("package initialisation failed: %v\n%s", panicString(r), debug.Stack())
		}
	}()
	call(i, nil, token.NoPos, hpkg.Func("init"), nil)
	i.sched.teardown()
	i.mutable = findMutableGlobals(i.prog)
	if os.Getenv("GOSX_MUTABLE") != "" {
		for _, g := range i.mutable {
			fmt.Fprintln(os.Stderr, "mutable global:", g.Pkg.Pkg.Path()+"."+g.Name())
		}
	}
	return i, nil
}

// fork returns an interpreter for one path: shares the program and the
// (post-init, treated as immutable) globals, owns everything else.
func (b *interpreter) fork(p *pathCtx) *interpreter {
	i := &interpreter{
		prog:               b.prog,
		globals:            b.globals,
		mode:               b.mode,
		reflectPackage:     b.reflectPackage,
		errorMethods:       b.errorMethods,
		rtypeMethods:       b.rtypeMethods,
		runtimeErrorString: b.runtimeErrorString,
		panicNilError:      b.panicNilError,
		sizes:              b.sizes,
		px:                 p,
		mutable:            b.mutable,
	}
	if len(b.mutable) > 0 {
		i.overlay = make(map[*ssa.Global]*value, len(b.mutable))
		memo := map[*value]*value{}
		for _, g := range b.mutable {
			i.overlay[g] = deepCopy(b.globals[g], memo).(*value)
		}
	}
	i.sched = newSched(p)
	return i
}

// ---------------------------------------------------------------- reporting helpers

func (st *Stats) SortedViolationKeys() []string {
	var keys []string
	for k := range st.Violations {
		keys = append(keys, k)
	}
	sort.Strings(keys)
	return keys
}
