package interp

// gosx: the nd intrinsics (nondeterministic inputs, assumptions, assertions)
// that harnesses call. Under the engine they are resolved here by name; the
// harness module also contains native bodies that read a recorded vector, so
// the same harness source is the replay.

import (
	"fmt"
	"go/types"
)

const ndPkg = "verifharness/nd."

// RuneDomainM: the representatives of non-ASCII code points (see DESIGN §2.2).
var RuneDomainM = []rune{0xE9, 0x4E16, 0x1D4B3, 0x663, 0xA0, 0x85, 0x3000, 0xD7, 0xFFFD, 0x10FFFF,
	0xB2, 0x2167, 0x2003, 0x2028, 0x301, 0x203F} // ... and ² (No) Ⅷ (Nl) EM SPACE (Zs) LINE SEPARATOR (Zl) COMBINING ACUTE (Mn) ‿ (Pc)

func (i *interpreter) ndVar(k types.BasicKind, def uint64, label string) (sym, *term) {
	w, _ := kindInfo(k)
	t := i.px.fresh(w, def, label)
	return sym{t, k}, t
}

func (i *interpreter) renderObs(vs []value) []string {
	out := make([]string, len(vs))
	for j, v := range vs {
		out[j] = i.renderStr(v)
	}
	return out
}

func init() {
	for k, v := range map[string]externalFn{
		"Rune": func(fr *frame, a []value) value {
			s, t := fr.i.ndVar(types.Int32, 'a', "rune")
			tb := fr.i.px.tb
			c := tb.app(opULt, 0, t, tb.bv(0x80, 32), nil)
			for _, m := range RuneDomainM {
				c = tb.or(c, tb.eq(t, tb.bv(uint64(m), 32)))
			}
			fr.i.px.assume(c)
			return s
		},
		"RuneASCII": func(fr *frame, a []value) value {
			s, t := fr.i.ndVar(types.Int32, 'a', "rune")
			tb := fr.i.px.tb
			fr.i.px.assume(tb.app(opULt, 0, t, tb.bv(0x80, 32), nil))
			return s
		},
		"RuneIn": func(fr *frame, a []value) value {
			set := []rune(a[0].(string))
			s, t := fr.i.ndVar(types.Int32, uint64(set[0]), "rune")
			tb := fr.i.px.tb
			c := tb.ff
			for _, m := range set {
				c = tb.or(c, tb.eq(t, tb.bv(uint64(m), 32)))
			}
			fr.i.px.assume(c)
			return s
		},
		"Byte": func(fr *frame, a []value) value {
			s, t := fr.i.ndVar(types.Uint8, 'a', "byte")
			tb := fr.i.px.tb
			fr.i.px.assume(tb.app(opULt, 0, t, tb.bv(0x80, 8), nil))
			return s
		},
		"ByteIn": func(fr *frame, a []value) value {
			set := a[0].(string)
			s, t := fr.i.ndVar(types.Uint8, uint64(set[0]), "byte")
			tb := fr.i.px.tb
			c := tb.ff
			for j := 0; j < len(set); j++ {
				c = tb.or(c, tb.eq(t, tb.bv(uint64(set[j]), 8)))
			}
			fr.i.px.assume(c)
			return s
		},
		"Str": func(fr *frame, a []value) value {
			n := a[0].(int)
			c := make([]value, n)
			tb := fr.i.px.tb
			for j := range c {
				s, t := fr.i.ndVar(types.Uint8, 'a', "strbyte")
				fr.i.px.assume(tb.app(opULt, 0, t, tb.bv(0x80, 8), nil))
				c[j] = s
			}
			return mkStr(c)
		},
		"StrIn": func(fr *frame, a []value) value {
			n := a[0].(int)
			set := a[1].(string)
			c := make([]value, n)
			tb := fr.i.px.tb
			for j := range c {
				s, t := fr.i.ndVar(types.Uint8, uint64(set[0]), "strbyte")
				cc := tb.ff
				for q := 0; q < len(set); q++ {
					cc = tb.or(cc, tb.eq(t, tb.bv(uint64(set[q]), 8)))
				}
				fr.i.px.assume(cc)
				c[j] = s
			}
			return mkStr(c)
		},
		"Int64":  func(fr *frame, a []value) value { s, _ := fr.i.ndVar(types.Int64, 0, "int64"); return s },
		"Int":    func(fr *frame, a []value) value { s, _ := fr.i.ndVar(types.Int, 0, "int"); return s },
		"Uint64": func(fr *frame, a []value) value { s, _ := fr.i.ndVar(types.Uint64, 0, "uint64"); return s },
		"Uint":   func(fr *frame, a []value) value { s, _ := fr.i.ndVar(types.Uint, 0, "uint"); return s },
		"Bool":   func(fr *frame, a []value) value { s, _ := fr.i.ndVar(types.Bool, 0, "bool"); return s },
		"IntRange": func(fr *frame, a []value) value {
			lo, hi := a[0].(int), a[1].(int)
			s, t := fr.i.ndVar(types.Int, uint64(lo), "int")
			tb := fr.i.px.tb
			fr.i.px.assume(tb.and(tb.app(opSLe, 0, tb.bv(uint64(lo), 64), t, nil), tb.app(opSLe, 0, t, tb.bv(uint64(hi), 64), nil)))
			return s
		},
		"Choice": func(fr *frame, a []value) value {
			return fr.i.px.ndChoice(a[0].(int), "choice")
		},
		"Assume": func(fr *frame, a []value) value {
			t, _ := fr.i.termOf(a[0])
			fr.i.px.assume(t)
			return nil
		},
		"Assert": func(fr *frame, a []value) value {
			t, _ := fr.i.termOf(a[0])
			fr.i.px.curFrame = fr.caller
			fr.i.px.assert(t, fr.i.renderStr(a[1]), "")
			return nil
		},
		"Cover": func(fr *frame, a []value) value {
			fr.i.px.cover[a[0].(string)] = true
			return nil
		},
		"Observe": func(fr *frame, a []value) value {
			fr.i.px.observeVals = append(fr.i.px.observeVals, a[0])
			fr.i.px.observe = append(fr.i.px.observe, fr.i.renderStr(a[0]))
			return nil
		},
		"Drain":      func(fr *frame, a []value) value { return fr.i.sched.drain() },
		"Goroutines": func(fr *frame, a []value) value { return fr.i.sched.live },
		"Blocked": func(fr *frame, a []value) value {
			// number of live background goroutines that are parked
			n := 0
			for _, g := range fr.i.sched.all {
				if !g.main && !g.exited && g.blocked != "" {
					n++
				}
			}
			return n
		},
		"SchedMode": func(fr *frame, a []value) value {
			fr.i.sched.schedMode = a[0].(int) >= 0
			fr.i.sched.preemptBud = a[0].(int)
			return nil
		},
		"RaceMonitor": func(fr *frame, a []value) value {
			if fr.i.sched.race == nil {
				fr.i.sched.race = newRaceMon()
			}
			fr.i.sched.race.on = a[0].(bool)
			return nil
		},
		"SelectChoice": func(fr *frame, a []value) value { fr.i.px.selectChoice = a[0].(bool); return nil },
		"PanicNil":     func(fr *frame, a []value) value { return fr.i.px.panicNil },
		"Symbolic":     func(fr *frame, a []value) value { return true },
		"Steps":        func(fr *frame, a []value) value { return int(fr.i.px.instrs) },
		"Concrete": func(fr *frame, a []value) value {
			// Concrete(s string) string: force a string to a concrete value (forks)
			return fr.i.conc(a[0])
		},
		"And": func(fr *frame, a []value) value {
			x, _ := fr.i.termOf(a[0])
			y, _ := fr.i.termOf(a[1])
			return mkSym(fr.i.px.tb.and(x, y), types.Bool)
		},
		"Or": func(fr *frame, a []value) value {
			x, _ := fr.i.termOf(a[0])
			y, _ := fr.i.termOf(a[1])
			return mkSym(fr.i.px.tb.or(x, y), types.Bool)
		},
		"SetFS": func(fr *frame, a []value) value {
			if itf, ok := a[0].(iface); ok {
				fr.i.px.userdata["fs"] = itf.v
			} else {
				fr.i.px.userdata["fs"] = a[0]
			}
			return nil
		},
		"Fail": func(fr *frame, a []value) value {
			fr.i.px.curFrame = fr.caller
			fr.i.px.violation("assert", fr.i.renderStr(a[0]), "", nil)
			return nil
		},
	} {
		externals[ndPkg+k] = v
	}
	_ = fmt.Sprint
}
