package h

import (
	"github.com/hattya/go.sh/ast"
	"github.com/hattya/go.sh/interp"
	"github.com/hattya/go.sh/pattern"
	"strings"
	"verifharness/nd"
)

// Conformance harnesses: the repository's own test inputs (source literals of
// parser_test.go, expression literals of arith_test.go) are pushed concretely
// through the engine; every observation is compared by the check driver with a
// native run of the same harness (engine-vs-native translation validation).

func digestPositions(cmds []ast.Command, comments []*ast.Comment) string {
	out := ""
	WalkNodes(cmds, func(n ast.Node, kind string) {
		out += kind + "@" + posStr(n.Pos()) + "-" + posStr(n.End()) + " "
	})
	for _, c := range comments {
		out += "#" + posStr(c.Pos()) + ":" + c.Text + " "
	}
	return out
}

func Conf_ParserCorpus() {
	src := RepoSources[nd.Choice(len(RepoSources))]
	cmds, comments, err := parseStreamOnce([]rune(src))
	nd.Observe(src)
	nd.Observe(errStr(err))
	nd.Observe(Skel(cmds))
	nd.Observe(digestPositions(cmds, comments))
	if err == nil {
		out, perr := PrintCmds(nil, cmds)
		nd.Observe(out + " / " + errStr(perr))
	}
}

func parseStreamOnce(src []rune) ([]ast.Command, []*ast.Comment, error) {
	cmds, comments, err, _ := parseRunes(nil, src)
	return cmds, comments, err
}

func Conf_ArithCorpus() {
	e := RepoExprs[nd.Choice(len(RepoExprs))]
	env := interp.NewExecEnv("sh")
	var inherited []string
	env.Walk(func(v interp.Var) { inherited = append(inherited, v.Name) })
	for _, n := range inherited {
		env.Unset(n)
	}
	env.Set("A", "alpha")
	env.Set("M", "0")
	env.Set("N", "1")
	env.Set("Z", "0z777")
	env.Set("X", "42")
	n, err := env.Eval(e)
	nd.Drain()
	nd.Observe(e)
	nd.Observe(itoa(n) + " " + errStr(err))
	for _, name := range []string{"X", "M", "N", "_", "x"} {
		v, set := env.Get(name)
		if set {
			nd.Observe(name + "=" + v.Value)
		}
	}
}

// Conf_MatchCorpus: the tables of /repo/pattern/pattern_test.go (TestMatch,
// TestMatchError) concretely through the engine (regexp model included) and
// natively.
var repoMatch = []struct {
	pats []string
	mode pattern.Mode
	s    string
}{
	{[]string{""}, 0, ""},
	{[]string{"", ""}, 0, ""},
	{[]string{"*.go"}, 0, "go.mod"},
	{[]string{"*.go"}, 0, "pattern.go"},
	{[]string{"*.sw?"}, 0, ".pattern.go.swp"},
	{[]string{"\\w"}, 0, "w"},
	{[]string{"\\["}, 0, "["},
	{[]string{"abc[lmn]xyz"}, 0, "abcmxyz"},
	{[]string{"abc[!lmn]xyz"}, 0, "abc-xyz"},
	{[]string{"[]\\-]"}, 0, "-"},
	{[]string{"[[\\+]"}, 0, "+"},
	{[]string{"[[:digit:]]"}, 0, "1"},
	{[]string{"[[:digit]"}, 0, ":"},
	{[]string{"/*"}, pattern.Smallest | pattern.Suffix, "foo"},
	{[]string{"/*"}, pattern.Smallest | pattern.Suffix, "foo/bar/baz"},
	{[]string{"/*"}, pattern.Largest | pattern.Suffix, "foo"},
	{[]string{"/*"}, pattern.Largest | pattern.Suffix, "foo/bar/baz"},
	{[]string{"*/"}, pattern.Smallest | pattern.Prefix, "foo"},
	{[]string{"*/"}, pattern.Smallest | pattern.Prefix, "foo/bar/baz"},
	{[]string{"*/"}, pattern.Largest | pattern.Prefix, "foo"},
	{[]string{"*/"}, pattern.Largest | pattern.Prefix, "foo/bar/baz"},
	{[]string{"*"}, pattern.Smallest | pattern.Suffix, ""},
	{[]string{"*"}, pattern.Smallest | pattern.Prefix, ""},
	{[]string{"*"}, pattern.Suffix | pattern.Prefix, "foo"},
	{[]string{"?"}, pattern.Smallest | pattern.Suffix, "\xf0\xff"},
	{[]string{"?"}, pattern.Smallest | pattern.Prefix, "\xf0\xff"},
	{[]string{"\xff"}, 0, ""},
	{[]string{"\\"}, 0, ""},
	{[]string{"\\\xff"}, 0, ""},
	{[]string{"["}, 0, ""},
	{[]string{"[\xff"}, 0, ""},
	{[]string{"[\\"}, 0, ""},
	{[]string{"[\\\xff"}, 0, ""},
	{[]string{"[["}, 0, ""},
	{[]string{"[[\xff"}, 0, ""},
	{[]string{"[[\\"}, 0, ""},
}

func Conf_MatchCorpus() {
	t := repoMatch[nd.Choice(len(repoMatch))]
	g, err := pattern.Match(t.pats, t.mode, t.s)
	nd.Observe(strings.Join(t.pats, "|") + " " + itoa(int(t.mode)) + " " + t.s)
	nd.Observe(g + " / " + errStr(err))
}
