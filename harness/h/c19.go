package h

import (
	"strings"

	"github.com/hattya/go.sh/ast"
	"github.com/hattya/go.sh/interp"
	"github.com/hattya/go.sh/parser"
	"github.com/hattya/go.sh/pattern"
	"github.com/hattya/go.sh/printer"
	"verifharness/nd"
)

// C19 — whatever the parser produces can be printed, measured and expanded
// without panic. Assertions are mostly the engine's own (no panic, return
// inside the budget); errors must be of the documented kinds.

func symConfig() *printer.Config {
	return &printer.Config{
		Indent: printer.Style(nd.Uint()),
		Width:  nd.IntRange(0, 8),
		Redir:  printer.Style(nd.Uint()),
		Assign: printer.Style(nd.Uint()),
		Do:     printer.Style(nd.Uint()),
		Case:   nd.Bool(),
		Then:   printer.Style(nd.Uint()),
	}
}

func documentedErr(err error) bool {
	switch err.(type) {
	case nil, parser.Error, interp.ArithExprError, interp.ParamExpError:
		return true
	}
	if err == pattern.NoMatch {
		return true
	}
	// regexp/syntax errors surface as their own type (modelled: an opaque error from regexp.Compile)
	return strings.Contains(err.Error(), "error parsing regexp")
}

func measure(cmds []ast.Command, comments []*ast.Comment) {
	WalkNodes(cmds, func(n ast.Node, kind string) {
		_ = n.Pos()
		_ = n.End()
	})
	for _, c := range comments {
		_ = c.Pos()
		_ = c.End()
	}
}

func c19Downstream(r []rune, what int) {
	cmds, comments, err, _ := parseRunes(nil, r)
	if err != nil {
		nd.Cover("rejected")
		return
	}
	nd.Cover("accepted")
	switch what {
	case 0:
		measure(cmds, comments)
	case 1:
		cfg := symConfig()
		out, perr := PrintCmds(cfg, cmds)
		nd.Assert(perr == nil, "Fprint of a parser result reports no error")
		nd.Observe(out)
		for _, c := range comments {
			var b strings.Builder
			nd.Assert(cfg.Fprint(&b, c) == nil, "Fprint of a comment reports no error")
		}
	case 2, 3:
		// zero, one or two positional parameters
		env := [](*interp.ExecEnv){interp.NewExecEnv("sh"), interp.NewExecEnv("sh", ""), interp.NewExecEnv("sh", "p1", "")}[nd.Choice(3)]
		var mode interp.ExpMode
		if what == 2 {
			// every bit pattern of mode and options
			env.Opts = interp.Option(nd.Uint())
			mode = interp.ExpMode(nd.Uint())
		} else {
			// the six documented modes, NoGlob on/off
			mode = []interp.ExpMode{0, interp.Arith, interp.Assign, interp.Literal, interp.Pattern, interp.Quote}[nd.Choice(6)]
			if nd.Choice(2) == 1 {
				env.Opts = interp.NoGlob | interp.NoUnset
			}
		}
		for _, w := range Words(cmds) {
			_, xerr := env.Expand(w, mode)
			nd.Assert(documentedErr(xerr), "Expand fails only with documented errors")
		}
	}
}

func C19_Measure_F2() { c19Downstream(freeRunes(2, false), 0) }
func C19_Measure_F3() { c19Downstream(freeRunes(3, false), 0) }
func C19_Measure_F4() { c19Downstream(freeRunes(4, true), 0) }
func C19_Print_F2()   { c19Downstream(freeRunes(2, false), 1) }
func C19_Print_F3()   { c19Downstream(freeRunes(3, false), 1) }
func C19_Expand_F2()  { c19Downstream(freeRunes(2, false), 2) }
func C19_Expand_F3()  { c19Downstream(freeRunes(3, true), 2) }

func holeTemplate() []rune {
	t := []rune(Templates[nd.Choice(len(Templates))])
	k := nd.Choice(len(t))
	t[k] = nd.Rune()
	return t
}

func C19_Measure_T1() { c19Downstream(holeTemplate(), 0) }
func C19_Print_T1()   { c19Downstream(holeTemplate(), 1) }
func C19_Expand_T1()  { c19Downstream(holeTemplate(), 3) }
func C19_Expand_T0Q() { c19Downstream([]rune(Templates[nd.Choice(len(Templates))]), 3) }
func C19_Expand_T0()  { c19Downstream([]rune(Templates[nd.Choice(len(Templates))]), 2) }

func C19_Option() {
	o := interp.Option(nd.Uint())
	s := o.String()
	nd.Assert(len(s) <= 13, "at most one letter per option")
}

func c19Eval(n int) {
	var b strings.Builder
	for i := 0; i < n; i++ {
		b.WriteRune(nd.Rune())
	}
	env := interp.NewExecEnv("sh")
	env.Set("a", "7")
	_, err := env.Eval(b.String())
	if err != nil {
		_, ok := err.(interp.ArithExprError)
		nd.Assert(ok, "Eval fails only with ArithExprError")
		nd.Cover("error")
	} else {
		nd.Cover("value")
	}
}

func C19_Eval_F2() { c19Eval(2) }
func C19_Eval_F3() { c19Eval(3) }
func C19_Eval_F4() { c19Eval(4) }

const patAlpha = "ab*?[]!^-\\.\n"

func c19Match(k, l int) {
	pat := nd.StrIn(k, patAlpha)
	subj := nd.StrIn(l, "ab-].\n")
	mode := pattern.Mode(nd.Uint())
	_, err := pattern.Match([]string{pat}, mode, subj)
	nd.Assert(documentedErr(err), "Match fails only with NoMatch or a regexp syntax error")
}

func C19_Match_22() { c19Match(2, 2) }
func C19_Match_32() { c19Match(3, 2) }

func C19_Glob_3() {
	pat := nd.StrIn(3, "a*?[]\\/.")
	paths, err := pattern.Glob(pat)
	nd.Assert(documentedErr(err), "Glob fails only with a regexp syntax error")
	nd.Assert(len(paths) == 0 || err == nil, "no paths together with an error")
}

// deepProgram nests one kind of multi-line compound construct k times.
func deepProgram(kind, k int) string {
	open := []string{"{\n", "(\n", "if a\nthen\n", "while a\ndo\n", "for i in x\ndo\n", "f() {\n", "x=$(\n", "case x in\na)\n"}[kind]
	clos := []string{"\n}", "\n)", "\nfi", "\ndone", "\ndone", "\n}", "\n)", "\n;;\nesac"}[kind]
	s := "b"
	for i := 0; i < k; i++ {
		s = open + s + clos
	}
	return s
}

// C19_Deep: deeply nested multi-line constructs (1, 5, 9 or 12 levels of one
// kind, optionally inside a brace group) measured and printed under four
// configurations (default, spaces, Case indentation, everything on new lines).
func C19_Deep() {
	kind := nd.Choice(8)
	k := []int{1, 5, 9, 12}[nd.Choice(4)]
	src := deepProgram(kind, k)
	if nd.Choice(2) == 1 {
		src = "{\n" + src + "\n}"
	}
	cmds, comments, err := parseStream([]rune(src))
	nd.Assert(err == nil, "a deeply nested program is accepted")
	if err != nil {
		nd.Observe(src)
		nd.Observe(errStr(err))
		return
	}
	measure(cmds, comments)
	cfg := []*printer.Config{
		{Indent: printer.Tab, Redir: printer.After, Assign: printer.Before},
		{Indent: printer.Space, Width: 2, Redir: printer.Before | printer.Space, Assign: printer.After},
		{Indent: printer.Tab, Case: true},
		{Indent: printer.Space, Width: 8, Do: printer.Newline, Then: printer.Newline, Case: true},
	}[nd.Choice(4)]
	out, perr := PrintCmds(cfg, cmds)
	nd.Assert(perr == nil, "Fprint of a deeply nested program reports no error")
	cmds2, _, err2 := parseStream([]rune(out))
	nd.Assert(err2 == nil, "the printed deeply nested program is accepted")
	if err2 == nil {
		nd.Assert(SkelEq(cmds2) == SkelEq(cmds), "the printed deeply nested program denotes the same program")
	}
	nd.Observe(itoa(kind) + " x " + itoa(k))
}
