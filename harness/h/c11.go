package h

import (
	"strconv"
	"strings"

	"github.com/hattya/go.sh/ast"
	"github.com/hattya/go.sh/interp"
	"github.com/hattya/go.sh/parser"
	"verifharness/nd"
)

// C11 — arithmetic follows C on 64-bit signed integers.
//
// The harness builds an expression tree from engine-enumerated choices,
// renders it with minimal (plus optional redundant) parentheses, evaluates the
// text with the real Eval and the tree with a reference evaluator that has
// C's lazy && || ?: and a map store. Operand values are unconstrained 64-bit
// symbolic integers, so every comparison below is a solver obligation over
// all values. The reference applies Go's own operators, so value terms
// coincide with the implementation's unless operands are routed differently.

type xkind int

const (
	xLit xkind = iota
	xVar
	xUnary
	xBinary // arithmetic, comparison, bitwise
	xLand
	xLor
	xCond
	xAssign  // = and compound
	xPreInc  // ++v --v
	xPostInc // v++ v--
)

type xnode struct {
	k       xkind
	op      string
	l, r, c *xnode
	name    string
	lit     string
	paren   bool // redundant parentheses
}

func prec(e *xnode) int {
	switch e.k {
	case xLit, xVar:
		return 15
	case xPostInc:
		return 14
	case xUnary, xPreInc:
		return 13
	case xBinary:
		switch e.op {
		case "*", "/", "%":
			return 12
		case "+", "-":
			return 11
		case "<<", ">>":
			return 10
		case "<", ">", "<=", ">=":
			return 9
		case "==", "!=":
			return 8
		case "&":
			return 7
		case "^":
			return 6
		case "|":
			return 5
		}
	case xLand:
		return 4
	case xLor:
		return 3
	case xCond:
		return 2
	case xAssign:
		return 1
	}
	return 0
}

func render(e *xnode, b *strings.Builder) {
	if e.paren {
		b.WriteString("( ")
	}
	sub := func(c *xnode, min int) {
		if prec(c) < min && !c.paren {
			b.WriteString("( ")
			render(c, b)
			b.WriteString(" )")
		} else {
			render(c, b)
		}
	}
	p := prec(e)
	switch e.k {
	case xLit:
		b.WriteString(e.lit)
	case xVar:
		b.WriteString(e.name)
	case xUnary:
		b.WriteString(e.op)
		b.WriteString(" ")
		sub(e.l, p)
	case xPreInc:
		b.WriteString(e.op)
		b.WriteString(" ")
		sub(e.l, p)
	case xPostInc:
		sub(e.l, p)
		b.WriteString(" ")
		b.WriteString(e.op)
	case xBinary, xLand, xLor:
		sub(e.l, p) // left associative
		b.WriteString(" ")
		b.WriteString(e.op)
		b.WriteString(" ")
		sub(e.r, p+1)
	case xCond:
		sub(e.c, 3)
		b.WriteString(" ? ")
		sub(e.l, 1)
		b.WriteString(" : ")
		sub(e.r, 2)
	case xAssign:
		sub(e.l, 13)
		b.WriteString(" ")
		b.WriteString(e.op)
		b.WriteString(" ")
		sub(e.r, 1)
	}
	if e.paren {
		b.WriteString(" )")
	}
}

// ---- reference evaluator

type aval struct {
	set bool
	num bool // holds a number n; otherwise the text s
	n   int
	s   string
}

type amodel struct {
	names   []string
	vals    []aval
	errc    string // "" or the class of the first fault
	skipped bool   // an operand with a possible effect or fault was not evaluated
}

func (m *amodel) idx(name string) int {
	for i, n := range m.names {
		if n == name {
			return i
		}
	}
	m.names = append(m.names, name)
	m.vals = append(m.vals, aval{})
	return len(m.names) - 1
}

func (m *amodel) set(name string, n int) {
	i := m.idx(name)
	m.vals[i] = aval{set: true, num: true, n: n}
}

func (m *amodel) setStr(name, s string) {
	i := m.idx(name)
	m.vals[i] = aval{set: true, s: s}
}

// read returns the numeric value of a variable.
func (m *amodel) read(name string) (int, bool) {
	i := m.idx(name)
	v := m.vals[i]
	switch {
	case !v.set:
		return 0, true
	case v.num:
		return v.n, true
	case v.s == "":
		return 0, true
	}
	n, err := strconv.ParseInt(v.s, 0, 64)
	if err != nil {
		m.errc = "invalid number"
		return 0, false
	}
	return int(n), true
}

func b2i(b bool) int {
	if b {
		return 1
	}
	return 0
}

const minInt = -9223372036854775808

// badLit reports whether e contains a malformed constant. Such an expression
// is ill-formed wherever the constant stands (a C compiler and every shell
// reject it even inside an operand that is not evaluated).
func badLit(e *xnode) bool {
	if e == nil {
		return false
	}
	if e.k == xLit {
		_, err := strconv.ParseInt(e.lit, 0, 64)
		return err != nil
	}
	return badLit(e.l) || badLit(e.r) || badLit(e.c)
}

// impure reports whether evaluating e can have an effect or raise a fault.
func impure(e *xnode) bool {
	if e == nil {
		return false
	}
	switch e.k {
	case xAssign, xPreInc, xPostInc:
		return true
	case xLit:
		_, err := strconv.ParseInt(e.lit, 0, 64)
		return err != nil
	case xVar:
		return e.name == "g"
	case xBinary:
		switch e.op {
		case "/", "%", "<<", ">>":
			return true
		}
	}
	return impure(e.l) || impure(e.r) || impure(e.c)
}

func (m *amodel) binop(op string, l, r int) (int, bool) {
	switch op {
	case "*":
		return l * r, true
	case "/", "%":
		if r == 0 {
			m.errc = "integer divide by zero"
			return 0, false
		}
		nd.Assume(!nd.And(l == minInt, r == -1)) // undefined in C
		if op == "/" {
			return l / r, true
		}
		return l % r, true
	case "+":
		return l + r, true
	case "-":
		return l - r, true
	case "<<", ">>":
		if r < 0 {
			m.errc = "negative shift amount"
			return 0, false
		}
		nd.Assume(r < 64) // undefined in C
		if op == "<<" {
			return l << uint(r), true
		}
		return l >> uint(r), true
	case "<":
		return b2i(l < r), true
	case ">":
		return b2i(l > r), true
	case "<=":
		return b2i(l <= r), true
	case ">=":
		return b2i(l >= r), true
	case "==":
		return b2i(l == r), true
	case "!=":
		return b2i(l != r), true
	case "&":
		return l & r, true
	case "^":
		return l ^ r, true
	case "|":
		return l | r, true
	}
	panic("binop " + op)
}

func (m *amodel) eval(e *xnode) (int, bool) {
	switch e.k {
	case xLit:
		n, err := strconv.ParseInt(e.lit, 0, 64)
		if err != nil {
			m.errc = "invalid number"
			return 0, false
		}
		return int(n), true
	case xVar:
		return m.read(e.name)
	case xUnary:
		v, ok := m.eval(e.l)
		if !ok {
			return 0, false
		}
		switch e.op {
		case "+":
			return v, true
		case "-":
			return -v, true
		case "~":
			return ^v, true
		case "!":
			return b2i(v == 0), true
		}
	case xBinary:
		l, ok := m.eval(e.l)
		if !ok {
			return 0, false
		}
		r, ok := m.eval(e.r)
		if !ok {
			return 0, false
		}
		return m.binop(e.op, l, r)
	case xLand:
		l, ok := m.eval(e.l)
		if !ok {
			return 0, false
		}
		if l == 0 {
			m.skipped = m.skipped || impure(e.r)
			return 0, true
		}
		r, ok := m.eval(e.r)
		if !ok {
			return 0, false
		}
		return b2i(r != 0), true
	case xLor:
		l, ok := m.eval(e.l)
		if !ok {
			return 0, false
		}
		if l != 0 {
			m.skipped = m.skipped || impure(e.r)
			return 1, true
		}
		r, ok := m.eval(e.r)
		if !ok {
			return 0, false
		}
		return b2i(r != 0), true
	case xCond:
		c, ok := m.eval(e.c)
		if !ok {
			return 0, false
		}
		if c != 0 {
			m.skipped = m.skipped || impure(e.r)
			return m.eval(e.l)
		}
		m.skipped = m.skipped || impure(e.l)
		return m.eval(e.r)
	case xAssign:
		if e.l.k != xVar {
			// the operands are evaluated before the operator is applied
			if _, ok := m.eval(e.r); !ok {
				return 0, false
			}
			m.errc = "requires lvalue"
			return 0, false
		}
		var v int
		if e.op == "=" {
			r, ok := m.eval(e.r)
			if !ok {
				return 0, false
			}
			v = r
		} else {
			l, ok := m.read(e.l.name)
			if !ok {
				return 0, false
			}
			r, ok := m.eval(e.r)
			if !ok {
				return 0, false
			}
			v, ok = m.binop(e.op[:len(e.op)-1], l, r)
			if !ok {
				return 0, false
			}
		}
		m.set(e.l.name, v)
		return v, true
	case xPreInc, xPostInc:
		if e.l.k != xVar {
			m.errc = "requires lvalue"
			return 0, false
		}
		v, ok := m.read(e.l.name)
		if !ok {
			return 0, false
		}
		d := 1
		if e.op == "--" {
			d = -1
		}
		m.set(e.l.name, v+d)
		if e.k == xPreInc {
			return v + d, true
		}
		return v, true
	}
	panic("eval")
}

// unsequenced reports whether some variable is modified and otherwise
// accessed without an intervening sequence point (undefined in C): such
// expressions are outside the property.
func unsequenced(e *xnode) bool {
	_, _, bad := effects(e)
	return bad
}

// effects returns the variables modified / read by e and whether e contains an
// unsequenced conflict.
func effects(e *xnode) (mod, acc []string, bad bool) {
	if e == nil {
		return nil, nil, false
	}
	has := func(set []string, n string) bool {
		for _, s := range set {
			if s == n {
				return true
			}
		}
		return false
	}
	inter := func(a, b []string) bool {
		for _, s := range a {
			if has(b, s) {
				return true
			}
		}
		return false
	}
	switch e.k {
	case xLit:
		return nil, nil, false
	case xVar:
		return nil, []string{e.name}, false
	case xUnary:
		return effects(e.l)
	case xPreInc, xPostInc:
		if e.l.k == xVar {
			return []string{e.l.name}, nil, false
		}
		return effects(e.l)
	case xBinary:
		ml, al, bl := effects(e.l)
		mr, ar, br := effects(e.r)
		bad = bl || br || inter(ml, ar) || inter(ml, mr) || inter(mr, al)
		return append(ml, mr...), append(al, ar...), bad
	case xLand, xLor:
		ml, al, bl := effects(e.l)
		mr, ar, br := effects(e.r)
		return append(ml, mr...), append(al, ar...), bl || br
	case xCond:
		mc, ac, bc := effects(e.c)
		ml, al, bl := effects(e.l)
		mr, ar, br := effects(e.r)
		return append(append(mc, ml...), mr...), append(append(ac, al...), ar...), bc || bl || br
	case xAssign:
		mr, ar, br := effects(e.r)
		if e.l.k != xVar {
			return mr, ar, br
		}
		// reading the assigned variable on the right is fine; modifying it is not
		bad = br || has(mr, e.l.name)
		return append(mr, e.l.name), ar, bad
	}
	return nil, nil, false
}

// ---- generator

var (
	unaryOps  = []string{"+", "-", "~", "!"}
	binaryOps = []string{"*", "/", "%", "+", "-", "<<", ">>", "<", ">", "<=", ">=", "==", "!=", "&", "^", "|"}
	assignOps = []string{"=", "*=", "/=", "%=", "+=", "-=", "<<=", ">>=", "&=", "^=", "|="}
)

// leaf chooses an operand: symbolic variables a b, assignable x (symbolic) and
// y (unset), u unset, e empty, o octal text, h hex text, g garbage, literals.
func leaf(rich bool) *xnode {
	if !rich {
		switch nd.Choice(3) {
		case 0:
			return &xnode{k: xVar, name: "a"}
		case 1:
			return &xnode{k: xVar, name: "b"}
		}
		return &xnode{k: xLit, lit: "3"}
	}
	names := []string{"a", "b", "x", "u", "e", "o", "h", "g"}
	lits := []string{"0", "1", "7", "010", "0x1F", "9223372036854775807", "08", "0x"}
	k := nd.Choice(len(names) + len(lits))
	if k < len(names) {
		return &xnode{k: xVar, name: names[k]}
	}
	return &xnode{k: xLit, lit: lits[k-len(names)]}
}

// opVariant enumerates the operator variants: 4 unary, 16 binary, && || ?:,
// 11 assignments, 2 prefix and 2 postfix increments (38 in all, 44 with the
// lvalue alternatives of the rich form).
func shape(rich bool, sub func(pos int) *xnode) *xnode {
	lval := func() *xnode {
		if !rich {
			return &xnode{k: xVar, name: "x"}
		}
		// (x) is an lvalue in C; ((1)) is not
		return []*xnode{{k: xVar, name: "x"}, {k: xVar, name: "y"}, {k: xLit, lit: "1"}, {k: xVar, name: "x", paren: true}, {k: xLit, lit: "1", paren: true}}[nd.Choice(5)]
	}
	switch nd.Choice(8) {
	case 0:
		return &xnode{k: xUnary, op: unaryOps[nd.Choice(len(unaryOps))], l: sub(0)}
	case 1:
		return &xnode{k: xBinary, op: binaryOps[nd.Choice(len(binaryOps))], l: sub(0), r: sub(1)}
	case 2:
		return &xnode{k: xLand, op: "&&", l: sub(0), r: sub(1)}
	case 3:
		return &xnode{k: xLor, op: "||", l: sub(0), r: sub(1)}
	case 4:
		return &xnode{k: xCond, c: sub(0), l: sub(1), r: sub(2)}
	case 5:
		return &xnode{k: xAssign, op: assignOps[nd.Choice(len(assignOps))], l: lval(), r: sub(1)}
	case 6:
		return &xnode{k: xPreInc, op: []string{"++", "--"}[nd.Choice(2)], l: lval()}
	}
	return &xnode{k: xPostInc, op: []string{"++", "--"}[nd.Choice(2)], l: lval()}
}

func gen1(sub func() *xnode) *xnode { return shape(true, func(int) *xnode { return sub() }) }

func errClass(err error) string {
	if err == nil {
		return ""
	}
	ae, ok := err.(interp.ArithExprError)
	if !ok {
		return "not-an-ArithExprError"
	}
	for _, c := range []string{"integer divide by zero", "negative shift amount", "invalid number", "requires lvalue"} {
		if strings.Contains(ae.Msg, c) {
			return c
		}
	}
	return "other: " + ae.Msg
}

func c11Run(e *xnode) {
	var b strings.Builder
	render(e, &b)
	text := b.String()

	env := interp.NewExecEnv("sh")
	m := &amodel{}
	a, bb, x := nd.Int(), nd.Int(), nd.Int()
	env.Set("a", strconv.Itoa(a))
	m.set("a", a)
	env.Set("b", strconv.Itoa(bb))
	m.set("b", bb)
	env.Set("x", strconv.Itoa(x))
	m.set("x", x)
	env.Set("e", "")
	m.setStr("e", "")
	env.Set("o", "010")
	m.setStr("o", "010")
	env.Set("h", "0x1F")
	m.setStr("h", "0x1F")
	env.Set("g", "1z")
	m.setStr("g", "1z")
	m.idx("y")
	m.idx("u")

	if unsequenced(e) {
		nd.Assume(false) // undefined in C: outside the property
	}
	got, err := env.Eval(text)
	want, ok := m.eval(e)
	nd.Observe(text)

	if ok && badLit(e) {
		// a malformed constant in an operand the reference did not reach
		nd.Cover("badlit-skipped")
		_, isArith := err.(interp.ArithExprError)
		nd.Assert(isArith, "a malformed constant is reported as an ArithExprError wherever it stands")
		return
	}
	if m.skipped {
		// The reference skipped an operand that could have an effect or a fault.
		nd.Cover("lazy")
		good := (ok && err == nil && got == want) || (!ok && err != nil)
		if good {
			good = storeAgrees(env, m)
		}
		nd.Assert(good, "an operand that C does not evaluate (right side of && or ||, unselected arm of ?:) was evaluated: its side effect or fault is visible")
		return
	}
	if !ok {
		nd.Cover("fault")
		nd.Assert(err != nil, "fault must be reported as an error ("+m.errc+")")
		_, isArith := err.(interp.ArithExprError)
		nd.Assert(isArith, "a fault is reported as an ArithExprError")
		nd.Assert(storeAgrees(env, m), "no assignment is performed after the first fault")
		return
	}
	nd.Cover("value")
	nd.Assert(err == nil, "well-formed expression must evaluate")
	nd.Assert(got == want, "value differs from C")
	nd.Assert(storeAgrees(env, m), "variables after evaluation differ from C")
}

func storeAgrees(env *interp.ExecEnv, m *amodel) bool {
	for i, name := range m.names {
		v, set := env.Get(name)
		mv := m.vals[i]
		if set != mv.set {
			return false
		}
		if !set {
			continue
		}
		if mv.num {
			if v.Value != strconv.Itoa(mv.n) {
				return false
			}
		} else if v.Value != mv.s {
			return false
		}
	}
	return true
}

// C11_D1: every depth-1 shape over the rich operand set.
func C11_D1() { c11Run(gen1(func() *xnode { return leaf(true) })) }

// C11_D2: every ordered pair (outer operator variant, inner operator variant,
// operand position of the inner one), with and without redundant parentheses
// around the inner expression. Inner operands are a and b, the remaining outer
// operands are the literals 3 / 5 — what is decided is precedence, associativity, operand
// routing, laziness and effects between two operators.
func C11_D2() {
	deep := nd.Choice(3)
	used := false
	e := shape(false, func(pos int) *xnode {
		if pos == deep {
			used = true
			in := shape(false, func(p int) *xnode {
				if p == 0 {
					return &xnode{k: xVar, name: "a"}
				}
				return &xnode{k: xVar, name: "b"}
			})
			in.paren = nd.Choice(2) == 1
			return in
		}
		if pos == 1 {
			return &xnode{k: xLit, lit: "5"}
		}
		return &xnode{k: xLit, lit: "3"}
	})
	nd.Assume(used)
	c11Run(e)
}

// C11_FaultAssign: a pending assignment around every operator variant whose
// lvalue may be a non-lvalue (1 = b, 1 += b, ++1, 1--, ...) or whose operands
// may fault (a / b with b == 0, a << b with b < 0): "no assignment is
// performed after the first fault". Forms: x op= F, x op= y = F,
// x op= 3 + F, x op= F - 5, u = (x op= F).
func C11_FaultAssign() {
	inner := shape(true, func(p int) *xnode {
		if p == 0 {
			return &xnode{k: xVar, name: "a"}
		}
		return &xnode{k: xVar, name: "b"}
	})
	inner.paren = nd.Choice(2) == 1
	op := assignOps[nd.Choice(len(assignOps))]
	x := func() *xnode { return &xnode{k: xVar, name: "x"} }
	var e *xnode
	switch nd.Choice(5) {
	case 0:
		e = &xnode{k: xAssign, op: op, l: x(), r: inner}
	case 1:
		e = &xnode{k: xAssign, op: op, l: x(), r: &xnode{k: xAssign, op: "=", l: &xnode{k: xVar, name: "u"}, r: inner}}
	case 2:
		e = &xnode{k: xAssign, op: op, l: x(), r: &xnode{k: xBinary, op: "+", l: &xnode{k: xLit, lit: "3"}, r: inner}}
	case 3:
		e = &xnode{k: xAssign, op: op, l: x(), r: &xnode{k: xBinary, op: "-", l: inner, r: &xnode{k: xLit, lit: "5"}}}
	case 4:
		in := &xnode{k: xAssign, op: op, l: x(), r: inner, paren: true}
		e = &xnode{k: xAssign, op: "=", l: &xnode{k: xVar, name: "u"}, r: in}
	}
	c11Run(e)
}

// C11_Expand: $(( )) goes through the parser and Expand into Eval: the
// expansion of "$((expr))" is the decimal value of expr, errors surface.
func C11_Expand() {
	e := shape(false, func(p int) *xnode {
		if p == 0 {
			return &xnode{k: xVar, name: "a"}
		}
		return &xnode{k: xVar, name: "b"}
	})
	var b strings.Builder
	render(e, &b)
	text := b.String()
	cmds, _, perr := parser.ParseCommands(nil, "src", "echo $(("+text+"))")
	nd.Assert(perr == nil && len(cmds) == 1, "arithmetic expansion parses")
	if perr != nil || len(cmds) != 1 {
		return
	}
	word := cmds[0].(*ast.Cmd).Expr.(*ast.SimpleCmd).Args[1]
	env := interp.NewExecEnv("sh")
	env.Opts = interp.NoGlob
	m := &amodel{}
	a, bb, x := nd.Int(), nd.Int(), nd.Int()
	env.Set("a", strconv.Itoa(a))
	m.set("a", a)
	env.Set("b", strconv.Itoa(bb))
	m.set("b", bb)
	env.Set("x", strconv.Itoa(x))
	m.set("x", x)
	fields, err := env.Expand(word, 0)
	want, ok := m.eval(e)
	nd.Observe(text)
	if m.skipped {
		return // covered by C11_D2 (known finding)
	}
	if !ok {
		_, isArith := err.(interp.ArithExprError)
		nd.Assert(isArith, "a fault inside $(( )) is reported as an ArithExprError")
		return
	}
	nd.Assert(err == nil && len(fields) == 1, "$(( )) expands to one field")
	if err == nil && len(fields) == 1 {
		nd.Assert(fields[0] == strconv.Itoa(want), "$(( )) expands to the decimal value C computes")
	}
	nd.Assert(storeAgrees(env, m), "variables after $(( )) differ from C")
}

// C11_Const: numerals with symbolic digits. The text is an optional base
// prefix followed by two symbolic bytes; the reference is C's numeral grammar
// (decimal [1-9][0-9]*, octal 0[0-7]*, hexadecimal 0[xX][0-9a-fA-F]+, blanks
// around it), everything else must be an ArithExprError.
func C11_Const() {
	prefix := []string{"", "0", "0x", "0X", "1", "7"}[nd.Choice(6)]
	text := prefix + nd.StrIn(2, "0189afgxz_ ")
	env := interp.NewExecEnv("sh")
	got, err := env.Eval(text)
	nd.Observe(text)
	val, ok := refNumeral(text)
	if !ok && isIdentText(text) {
		nd.Cover("identifier")
		nd.Assert(err == nil && got == 0, "an unset variable reads as 0")
		return
	}
	if !ok {
		nd.Cover("malformed")
		_, isArith := err.(interp.ArithExprError)
		nd.Assert(isArith, "a malformed constant (or anything that is not an expression) is an ArithExprError")
		return
	}
	nd.Cover("numeral")
	nd.Assert(err == nil && got == val, "a decimal, octal or hexadecimal constant has its C value")
}

// isIdentText: blanks, one identifier, blanks.
func isIdentText(s string) bool {
	i, j := 0, len(s)
	for i < j && s[i] == ' ' {
		i++
	}
	for j > i && s[j-1] == ' ' {
		j--
	}
	if i == j {
		return false
	}
	for k := i; k < j; k++ {
		c := s[k]
		letter := c == '_' || (c >= 'a' && c <= 'z') || (c >= 'A' && c <= 'Z')
		if !(letter || (k > i && c >= '0' && c <= '9')) {
			return false
		}
	}
	return true
}

// refNumeral parses s as blanks, one C integer constant, blanks.
func refNumeral(s string) (int, bool) {
	i, j := 0, len(s)
	for i < j && s[i] == ' ' {
		i++
	}
	for j > i && s[j-1] == ' ' {
		j--
	}
	t := s[i:j]
	if t == "" {
		return 0, false
	}
	digit := func(c byte, base int) (int, bool) {
		var d int
		switch {
		case c >= '0' && c <= '9':
			d = int(c - '0')
		case c >= 'a' && c <= 'f':
			d = int(c-'a') + 10
		case c >= 'A' && c <= 'F':
			d = int(c-'A') + 10
		default:
			return 0, false
		}
		return d, d < base
	}
	base := 10
	k := 0
	if t[0] == '0' {
		base = 8
		k = 1
		if len(t) > 1 && (t[1] == 'x' || t[1] == 'X') {
			base = 16
			k = 2
			if len(t) == 2 {
				return 0, false
			}
		}
	}
	n := 0
	for ; k < len(t); k++ {
		d, ok := digit(t[k], base)
		if !ok {
			return 0, false
		}
		n = n*base + d
	}
	return n, true
}

// C11_D3: three nested operators (arithmetic, comparison and bitwise binary
// operators and the unary ones), every position of the inner expressions,
// with and without redundant parentheses around the innermost one.
func C11_D3() {
	ops := []string{"*", "/", "+", "-", "<<", "<", "==", "&", "|"}
	un := func() *xnode {
		return &xnode{k: xUnary, op: unaryOps[nd.Choice(len(unaryOps))], l: &xnode{k: xVar, name: "a"}}
	}
	bin := func(l, r *xnode) *xnode {
		return &xnode{k: xBinary, op: ops[nd.Choice(len(ops))], l: l, r: r}
	}
	va, vb, l3 := &xnode{k: xVar, name: "a"}, &xnode{k: xVar, name: "b"}, &xnode{k: xLit, lit: "3"}
	var inner *xnode
	if nd.Choice(4) == 0 {
		inner = un()
	} else {
		inner = bin(va, vb)
	}
	inner.paren = nd.Choice(2) == 1
	var mid *xnode
	if nd.Choice(2) == 0 {
		mid = bin(inner, l3)
	} else {
		mid = bin(l3, inner)
	}
	var e *xnode
	if nd.Choice(2) == 0 {
		e = bin(mid, &xnode{k: xLit, lit: "5"})
	} else {
		e = bin(&xnode{k: xLit, lit: "5"}, mid)
	}
	c11Run(e)
}
