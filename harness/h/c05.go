package h

import (
	"github.com/hattya/go.sh/ast"
	"github.com/hattya/go.sh/interp"
	"github.com/hattya/go.sh/parser"
	"github.com/hattya/go.sh/printer"
	"verifharness/nd"
)

// C05 — print then parse gives back the same program, under every style.
// C18 — printing is idempotent, deterministic and pure; writer faults surface.
//
// The whole Config is symbolic (five 64-bit Style words, Case, Width 0..8), so
// every bit pattern is covered by the solver, not 256 combinations.

// parseAllEnv parses every command of a stream with an alias environment.
func parseAllEnv(env *interp.ExecEnv, s *Scanner) ([]ast.Command, error) {
	var all []ast.Command
	for n := 0; n < 64; n++ {
		cmds, _, err := parser.ParseCommands(env, "src", s)
		nd.Drain()
		if err != nil {
			return all, err
		}
		all = append(all, cmds...)
		if s.I >= len(s.R) {
			return all, nil
		}
	}
	nd.Fail("parsing the stream does not terminate")
	return all, nil
}

// parseAll parses every command of a stream.
func parseAll(src []rune) ([]ast.Command, error) {
	s := NewScanner(src)
	var all []ast.Command
	for n := 0; n < 64; n++ {
		cmds, _, err := parser.ParseCommands(nil, "printed", s)
		nd.Drain()
		if err != nil {
			return all, err
		}
		all = append(all, cmds...)
		if s.I >= len(s.R) {
			return all, nil
		}
	}
	nd.Fail("re-parsing the printed text does not terminate")
	return all, nil
}

// hasLoneBackslash: the tree contains the Quote{Tok: "\\"} with an empty Value
// that the parser produces for a backslash at the very end of the input.
func hasLoneBackslash(cmds []ast.Command) bool {
	found := false
	WalkNodes(cmds, func(n ast.Node, kind string) {
		if q, ok := n.(*ast.Quote); ok && q.Tok == "\\" && len(q.Value) == 0 {
			found = true
		}
	})
	return found
}

// contInHeredoc: the source has a line continuation inside a word (not
// preceded by a blank) or after a here-document operator. go.sh keeps the two
// halves of the word as separate literals and does not re-scan them, and the
// properties exclude continuations inside words.
func contInHeredoc(src []rune) bool {
	op := false
	for i := 1; i < len(src); i++ {
		if src[i] == '<' && src[i-1] == '<' {
			op = true
		}
		if src[i] == '\n' && src[i-1] == '\\' {
			if op || i < 2 || (src[i-2] != ' ' && src[i-2] != '\t') {
				return true
			}
		}
	}
	return false
}

func c05(src []rune, prop int) {
	cmds, _, err, _ := parseRunes(nil, src)
	if err != nil || len(cmds) == 0 {
		nd.Cover("rejected")
		return
	}
	nd.Cover("accepted")
	if contInHeredoc(src) {
		nd.Assume(false) // a line continuation inside a here-document body is outside the claim
	}
	lone := hasLoneBackslash(cmds)
	if lone && prop == 5 {
		c05LoneBackslash(src, cmds)
		return
	}
	nd.Observe(string(src))
	cfg := symConfig()
	before := Skel(cmds)
	out1, perr := PrintCmds(cfg, cmds)
	nd.Assert(perr == nil, "printing a parser result reports no error")
	if prop == 18 {
		// purity and determinism
		nd.Assert(Skel(cmds) == before, "the tree is unchanged after Fprint (including hidden separators)")
		out1b, _ := PrintCmds(cfg, cmds)
		nd.Assert(out1b == out1, "printing the same tree twice gives the same bytes")
		if len(out1) > 0 {
			// a writer that fails after k bytes (k symbolic)
			w := &errWriter{Limit: nd.IntRange(0, len(out1)-1)}
			var ferr error
			for i, c := range cmds {
				if i > 0 {
					w.Write([]byte{'\n'})
				}
				if e := cfg.Fprint(w, c); e != nil {
					ferr = e
					break
				}
			}
			if w.Failed {
				nd.Cover("write-fault")
				nd.Assert(ferr != nil, "a failing writer is reported as an error")
			}
		}
		if lone {
			return
		}
	}
	cmds2, err2 := parseAll([]rune(out1))
	// C05's obligation; C18's fix-point presupposes it
	nd.Assert(err2 == nil, "the printed text is accepted by the parser")
	if err2 != nil {
		nd.Observe(out1)
		return
	}
	if prop == 5 {
		nd.Assert(SkelEq(cmds2) == SkelEq(cmds), "the printed text denotes the same program")
	} else {
		// formatting is a fix-point
		out2, _ := PrintCmds(cfg, cmds2)
		nd.Assert(out2 == out1, "printing the re-parsed output gives byte-identical text")
	}
	nd.Observe(out1)
}

// c05LoneBackslash: same obligations, reported under their own messages (the
// lone trailing backslash is a known finding: it cannot be printed faithfully
// when a style moves it away from the end of the text).
func c05LoneBackslash(src []rune, cmds []ast.Command) {
	nd.Cover("lone-backslash")
	nd.Observe(string(src))
	cfg := symConfig()
	out1, perr := PrintCmds(cfg, cmds)
	nd.Assert(perr == nil, "printing a parser result reports no error")
	cmds2, err2 := parseAll([]rune(out1))
	ok := err2 == nil
	if ok {
		ok = SkelEq(cmds2) == SkelEq(cmds)
	}
	nd.Assert(ok, "a tree with a backslash at the end of input prints to text that denotes the same program")
	nd.Observe(out1)
}

func C05_F2()  { c05(freeRunes(2, false), 5) }
func C05_F3()  { c05(freeRunes(3, false), 5) }
func C05_T0()  { c05([]rune(Templates[nd.Choice(len(Templates))]), 5) }
func C05_T1()  { c05(holeTemplate(), 5) }
func C05_G1()  { c05(genProgram(1, 1), 5) }
func C05_G12() { c05(genProgram(1, 2), 5) }
func C18_G12() { c05(genProgram(1, 2), 18) }
func C05_G2()  { c05(genProgram(2, 2), 5) }
func C18_G1()  { c05(genProgram(1, 1), 18) }
func C18_G2()  { c05(genProgram(2, 2), 18) }
func C18_F2()  { c05(freeRunes(2, false), 18) }
func C18_F3()  { c05(freeRunes(3, false), 18) }
func C18_T0()  { c05([]rune(Templates[nd.Choice(len(Templates))]), 18) }
func C18_T1()  { c05(holeTemplate(), 18) }

// C05_Default: the default configuration (printer.Fprint) on templates with a hole.
func C05_Default() {
	src := holeTemplate()
	cmds, _, err, _ := parseRunes(nil, src)
	if err != nil || len(cmds) == 0 {
		return
	}
	if contInHeredoc(src) || hasLoneBackslash(cmds) {
		nd.Assume(false) // same exclusions as c05 (KF-C05-lone-backslash is reported there)
	}
	out, perr := PrintCmds(nil, cmds)
	nd.Assert(perr == nil, "printing a parser result reports no error")
	cmds2, err2 := parseAll([]rune(out))
	nd.Assert(err2 == nil, "the printed text is accepted by the parser")
	if err2 == nil {
		nd.Assert(SkelEq(cmds2) == SkelEq(cmds), "the printed text denotes the same program")
	}
	_ = printer.Tab
}

// ContInHeredoc exports contInHeredoc for cmd/refdiff.
func ContInHeredoc(src []rune) bool { return contInHeredoc(src) }

// C05_ArithLines / C18_ArithLines: arithmetic commands and expansions whose
// parts are separated by nothing or a blank, one of the four separators being
// a newline followed by k blanks (k = 0..9, so that a continuation line starts
// before, at and after the column where the previous line ended).
func arithLines() []rune {
	brk := nd.Choice(4) // the separator that is a line break followed by k blanks
	nl := "\n"
	for k := nd.Choice(10); k > 0; k-- {
		nl += " "
	}
	other := []string{"", " "}[nd.Choice(2)]
	sep := func(i int) string {
		if i == brk {
			return nl
		}
		return other
	}
	toks := [][3]string{{"a", "+", "-1"}, {"(a)", "*", "(b)"}}[nd.Choice(2)]
	e := sep(0) + toks[0] + sep(1) + toks[1] + sep(2) + toks[2] + sep(3)
	if nd.Choice(2) == 0 {
		return []rune("((" + e + "))")
	}
	return []rune("x $((" + e + ")) y")
}

func C05_ArithLines() { c05(arithLines(), 5) }
func C18_ArithLines() { c05(arithLines(), 18) }
