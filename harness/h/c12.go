package h

import (
	"github.com/hattya/go.sh/pattern"
	"verifharness/nd"
)

// C12 — pattern matching in all four removal modes.
//
// The pattern is engine-enumerated (every string of k symbols over the
// alphabet below); the subject is a string of L symbolic bytes (plus an
// optional concrete multi-byte character), so every character test of the
// implementation's regular expression and of the reference matcher is a
// solver-decided branch. The reference is a direct backtracking matcher for
// POSIX shell pattern notation.

const c12Alpha = "ab*?[]!^-\\.\n"

type ptok struct {
	kind  int // 0 literal, 1 any (?), 2 star, 3 class
	lit   rune
	neg   bool
	lo    []rune
	hi    []rune
	alpha bool     // [:alpha:]
	cls   []string // other POSIX classes (ASCII, as in Go's regexp)
}

// parsePat parses shell pattern notation; ok=false for a malformed pattern
// (unterminated bracket expression, reversed range, trailing backslash).
func parsePat(p []rune) (toks []ptok, ok bool) {
	i := 0
	for i < len(p) {
		c := p[i]
		switch c {
		case '?':
			toks = append(toks, ptok{kind: 1})
			i++
		case '*':
			toks = append(toks, ptok{kind: 2})
			i++
		case '\\':
			if i+1 >= len(p) {
				return nil, false
			}
			toks = append(toks, ptok{kind: 0, lit: p[i+1]})
			i += 2
		case '[':
			t := ptok{kind: 3}
			j := i + 1
			if j < len(p) && (p[j] == '!' || p[j] == '^') {
				t.neg = true
				j++
			}
			first := true
			closed := false
			for j < len(p) {
				c := p[j]
				if c == ']' && !first {
					closed = true
					j++
					break
				}
				first = false
				if c == '[' && j+1 < len(p) && p[j+1] == ':' {
					// character class [:alpha:] (the only one in the alphabet)
					if j+8 < len(p) && string(p[j:j+9]) == "[:alpha:]" {
						t.alpha = true
						j += 9
						continue
					}
					if name, n := posixClass(p[j:]); n > 0 {
						t.cls = append(t.cls, name)
						j += n
						continue
					}
					return nil, false
				}
				if c == '\\' {
					if j+1 >= len(p) {
						return nil, false
					}
					j++
					c = p[j]
				}
				lo := c
				j++
				// range?
				if j+1 < len(p) && p[j] == '-' && p[j+1] != ']' {
					hi := p[j+1]
					j += 2
					if hi == '\\' {
						if j >= len(p) {
							return nil, false
						}
						hi = p[j]
						j++
					}
					if hi < lo {
						return nil, false
					}
					t.lo = append(t.lo, lo)
					t.hi = append(t.hi, hi)
				} else {
					t.lo = append(t.lo, lo)
					t.hi = append(t.hi, lo)
				}
			}
			if !closed {
				return nil, false
			}
			toks = append(toks, t)
			i = j
		default:
			toks = append(toks, ptok{kind: 0, lit: c})
			i++
		}
	}
	return toks, true
}

// posixClass recognises [:name:] at the start of p for the ASCII classes.
func posixClass(p []rune) (string, int) {
	for _, name := range []string{"digit", "space", "upper", "lower", "alnum", "punct", "xdigit", "blank"} {
		w := []rune("[:" + name + ":]")
		if len(p) >= len(w) && string(p[:len(w)]) == string(w) {
			return name, len(w)
		}
	}
	return "", 0
}

func inPosixClass(name string, r rune) bool {
	switch name {
	case "digit":
		return r >= '0' && r <= '9'
	case "space":
		return r == ' ' || r >= '\t' && r <= '\r'
	case "upper":
		return r >= 'A' && r <= 'Z'
	case "lower":
		return r >= 'a' && r <= 'z'
	case "alnum":
		return isAlpha(r) || r >= '0' && r <= '9'
	case "punct":
		return r >= '!' && r <= '/' || r >= ':' && r <= '@' || r >= '[' && r <= '`' || r >= '{' && r <= '~'
	case "xdigit":
		return r >= '0' && r <= '9' || r >= 'a' && r <= 'f' || r >= 'A' && r <= 'F'
	case "blank":
		return r == ' ' || r == '\t'
	}
	return false
}

func isAlpha(r rune) bool { return r >= 'a' && r <= 'z' || r >= 'A' && r <= 'Z' } // C locale

func tokMatches(t ptok, r rune) bool {
	switch t.kind {
	case 0:
		return r == t.lit
	case 1:
		return true
	case 3:
		in := false
		for k := range t.lo {
			if t.lo[k] <= r && r <= t.hi[k] {
				in = true
			}
		}
		if t.alpha && isAlpha(r) {
			in = true
		}
		for _, c := range t.cls {
			if inPosixClass(c, r) {
				in = true
			}
		}
		return in != t.neg
	}
	return false
}

// patMatch: does the whole of s match toks?
func patMatch(toks []ptok, s []rune) bool {
	if len(toks) == 0 {
		return len(s) == 0
	}
	if toks[0].kind == 2 {
		for i := 0; i <= len(s); i++ {
			if patMatch(toks[1:], s[i:]) {
				return true
			}
		}
		return false
	}
	return len(s) > 0 && tokMatches(toks[0], s[0]) && patMatch(toks[1:], s[1:])
}

// refRemove returns the prefix/suffix of s selected by mode, and whether there is one.
func refRemove(toks []ptok, s []rune, prefix, smallest bool) ([]rune, bool) {
	n := len(s)
	if prefix {
		if smallest {
			for i := 0; i <= n; i++ {
				if patMatch(toks, s[:i]) {
					return s[:i], true
				}
			}
		} else {
			for i := n; i >= 0; i-- {
				if patMatch(toks, s[:i]) {
					return s[:i], true
				}
			}
		}
		return nil, false
	}
	if smallest {
		for i := n; i >= 0; i-- {
			if patMatch(toks, s[i:]) {
				return s[i:], true
			}
		}
	} else {
		for i := 0; i <= n; i++ {
			if patMatch(toks, s[i:]) {
				return s[i:], true
			}
		}
	}
	return nil, false
}

func choosePattern(k int, alpha string) []rune {
	p := make([]rune, k)
	a := []rune(alpha)
	for i := range p {
		p[i] = a[nd.Choice(len(a))]
	}
	return p
}

// symSubject returns l symbolic ASCII bytes, optionally with a concrete
// two-byte character inserted.
func symSubject(l int, multibyte bool) string {
	s := nd.Str(l)
	if multibyte {
		k := nd.Choice(l + 2)
		if k <= l {
			s = s[:k] + "é" + s[k:]
		}
	}
	return s
}

func c12(k, l int, alpha string, multibyte bool) {
	c12Pat(choosePattern(k, alpha), l, multibyte)
}

func c12Pat(pat []rune, l int, multibyte bool) {
	subj := symSubject(l, multibyte)
	mode := pattern.Mode(0)
	prefix := nd.Choice(2) == 1
	smallest := nd.Choice(2) == 1
	if prefix {
		mode |= pattern.Prefix
	} else {
		mode |= pattern.Suffix
	}
	if smallest {
		mode |= pattern.Smallest
	} else {
		mode |= pattern.Largest
	}
	got, err := pattern.Match([]string{string(pat)}, mode, subj)
	toks, wellFormed := parsePat(pat)
	nd.Observe(string(pat))
	if !wellFormed {
		nd.Cover("malformed")
		nd.Assert(err != nil && err != pattern.NoMatch, "a malformed pattern gives an error, not a match and not NoMatch")
		return
	}
	nd.Assert(err == nil || err == pattern.NoMatch, "a well-formed pattern compiles")
	if err != nil && err != pattern.NoMatch {
		return
	}
	want, ok := refRemove(toks, []rune(subj), prefix, smallest)
	if !ok {
		nd.Cover("nomatch")
		nd.Assert(err == pattern.NoMatch, "NoMatch exactly when no prefix/suffix matches")
		return
	}
	nd.Cover("match")
	nd.Assert(err == nil, "a matching prefix/suffix is found")
	if err == nil {
		nd.Assert(got == string(want), "the shortest/longest matching prefix/suffix is returned")
	}
}

func C12_K1L2() { c12(1, 2, c12Alpha+"+()|{}$", true) }
func C12_K2L2() { c12(2, 2, c12Alpha, true) }
func C12_K3L2() { c12(3, 2, c12Alpha, false) }
func C12_K3L3() { c12(3, 3, c12Alpha, false) }
func C12_K4L3() { c12(4, 3, "ab*?[]!-\\", false) }

// C12_Class: bracket expressions with a character class and ranges.
func C12_Class() {
	pats := []string{"[[:alpha:]]", "[![:alpha:]]", "[[:alpha:]b-]", "[a-b]*", "*[!a-b]", "[]a]", "[a\\]]", "[\\!a]", "[a-]?",
		"[a\\-c]", "[!a\\-c]", "[+\\-.]", "[c\\-a]", "[\\-a]", "[a\\-]", "[\\^a]", "[a\\^]", "[^\\^]", "[\\[a]", "[a-c\\]]", "\\[a]", "[\\\\a]"}
	pat := []rune(pats[nd.Choice(len(pats))])
	subj := symSubject(2, true)
	prefix := nd.Choice(2) == 1
	smallest := nd.Choice(2) == 1
	mode := pattern.Suffix
	if prefix {
		mode = pattern.Prefix
	}
	if smallest {
		mode |= pattern.Smallest
	}
	got, err := pattern.Match([]string{string(pat)}, mode, subj)
	toks, wf := parsePat(pat)
	nd.Assert(wf, "class patterns are well-formed")
	want, ok := refRemove(toks, []rune(subj), prefix, smallest)
	if !ok {
		nd.Assert(err == pattern.NoMatch, "NoMatch exactly when no prefix/suffix matches")
		return
	}
	nd.Assert(err == nil && got == string(want), "the shortest/longest matching prefix/suffix is returned")
}

// C12_Two: several patterns match exactly when one of them does; Prefix and
// Suffix together never match.
func C12_Two() {
	p1 := choosePattern(2, "ab*?")
	p2 := choosePattern(1, "ab*?")
	subj := nd.Str(2)
	prefix := nd.Choice(2) == 1
	mode := pattern.Suffix | pattern.Largest
	if prefix {
		mode = pattern.Prefix | pattern.Largest
	}
	_, err := pattern.Match([]string{string(p1), string(p2)}, mode, subj)
	t1, _ := parsePat(p1)
	t2, _ := parsePat(p2)
	_, ok1 := refRemove(t1, []rune(subj), prefix, false)
	_, ok2 := refRemove(t2, []rune(subj), prefix, false)
	nd.Assert((err == nil) == (ok1 || ok2), "several patterns match exactly when one of them does")
	_, err = pattern.Match([]string{string(p1)}, pattern.Prefix|pattern.Suffix, subj)
	nd.Assert(err == pattern.NoMatch, "Prefix and Suffix together never match")
}

func C12_K5L2() { c12(5, 2, "[a*].", false) }

func C12_K6L2() { c12(6, 2, "[a\\-c]", false) }

// C12_Pieces*: patterns assembled from k multi-character pieces (character
// classes, negated classes, classes mixed with ranges, * ? literals, escapes),
// so that two bracket expressions with something translatable between them
// occur in every order.
var c12PiecesQuick = []string{"[[:alpha:]]", "[[:digit:]]", "[![:digit:]]", "[a[:digit:]-]", "*", "?", "a", "\\*"}
var c12PiecesMore = []string{"[[:space:][:upper:]]", ".", "[a-c]", "1", "[!a]", "\\["}

func c12Pieces(k, l int, pieces []string) {
	text := ""
	for i := 0; i < k; i++ {
		text += pieces[nd.Choice(len(pieces))]
	}
	c12Pat([]rune(text), l, false)
}

func C12_Pieces3L2() { c12Pieces(3, 2, c12PiecesQuick) }
func C12_Pieces3L3() {
	c12Pieces(3, 3, append(append([]string{}, c12PiecesQuick...), c12PiecesMore...))
}
func C12_Pieces4L2()  { c12Pieces(4, 2, c12PiecesQuick) }
func C12_Pieces3L3q() { c12Pieces(3, 3, c12PiecesQuick) }

// C12_Seq: Match is a function of its arguments: two calls in one process,
// with pattern lists that resemble each other (the same text split at a blank
// into one or two patterns, the same patterns in another mode), each against
// the reference — state kept between calls must not leak into results.
func C12_Seq() {
	lists := [][]string{{"a b"}, {"a", "b"}, {"a*", "b"}, {"a* b"}, {"[ab]", "c*"}, {"[ab] c*"}, {"a"}, {"b", "a"}}
	subj := nd.Str(3)
	modes := []pattern.Mode{pattern.Prefix | pattern.Largest, pattern.Suffix | pattern.Smallest}
	for call := 0; call < 2; call++ {
		l := lists[nd.Choice(len(lists))]
		mi := nd.Choice(2)
		got, err := pattern.Match(l, modes[mi], subj)
		var want []rune
		found := false
		for _, p := range l {
			toks, _ := parsePat([]rune(p))
			w, ok := refRemove(toks, []rune(subj), mi == 0, mi == 1)
			if ok && (!found || (mi == 0 && len(w) > len(want)) || (mi == 1 && len(w) < len(want))) {
				want, found = w, true
			}
		}
		if !found {
			nd.Assert(err == pattern.NoMatch, "NoMatch exactly when no pattern of the list matches (second call included)")
			continue
		}
		nd.Assert(err == nil && got == string(want), "each call returns what its own arguments determine")
	}
}

// C12_Brace*: braces, digits and commas are ordinary characters of shell
// patterns (and repetition operators of the regular expression syntax).
func C12_Brace4() { c12(4, 4, "a{1,}", false) }
func C12_Brace5() { c12(5, 5, "a{1,}", false) }
