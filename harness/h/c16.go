package h

import (
	"github.com/hattya/go.sh/pattern"
	"verifharness/fsmodel"
	"verifharness/nd"
)

// C16 — pathname expansion returns exactly the existing matching paths.
//
// The file system is a model (package fsmodel) whose entry names are symbolic
// bytes and whose entry kinds are engine-enumerated; the engine redirects
// os.Lstat / os.Open / Readdirnames to it, natively the same tree is created
// on disk. The pattern is engine-enumerated. The oracle walks the model with
// the reference matcher of C12.

// splitComponents splits a pattern at unescaped slashes: comps[i] is followed
// by a slash iff i < len(comps)-1 (so a trailing slash gives a last empty
// component).
func splitComponents(p []rune) [][]rune {
	var comps [][]rune
	var cur []rune
	for i := 0; i < len(p); i++ {
		if p[i] == '\\' && i+1 < len(p) {
			if p[i+1] == '/' {
				// a slash cannot be part of a name: an escaped slash separates too
				comps = append(comps, cur)
				cur = nil
				i++
				continue
			}
			cur = append(cur, p[i], p[i+1])
			i++
			continue
		}
		if p[i] == '/' {
			comps = append(comps, cur)
			cur = nil
			continue
		}
		cur = append(cur, p[i])
	}
	return append(comps, cur)
}

func isLiteralComp(c []rune) bool {
	for i := 0; i < len(c); i++ {
		switch c[i] {
		case '\\':
			i++
		case '?', '*', '[':
			return false
		}
	}
	return true
}

func unquoteComp(c []rune) string {
	var out []rune
	for i := 0; i < len(c); i++ {
		if c[i] == '\\' && i+1 < len(c) {
			i++
		}
		out = append(out, c[i])
	}
	return string(out)
}

// refGlob is the oracle. ok=false: the pattern has a malformed component.
func refGlob(fs *fsmodel.FS, pat []rune) (paths []string, ok bool) {
	comps := splitComponents(pat)
	cur := []string{""} // path prefixes (relative to the working directory)
	for ci, comp := range comps {
		last := ci == len(comps)-1
		if len(comp) == 0 {
			if last {
				break
			}
			// repeated (or leading) slash
			for i := range cur {
				cur[i] += "/"
			}
			continue
		}
		var next []string
		// does the component begin with a literal (possibly escaped) period?
		dot := comp[0] == '.' || (len(comp) > 1 && comp[0] == '\\' && comp[1] == '.')
		lit := isLiteralComp(comp)
		var toks []ptok
		if !lit {
			var wf bool
			toks, wf = parsePat(comp)
			if !wf {
				return nil, false
			}
		}
		for _, prefix := range cur {
			dir := prefix
			if dir == "" {
				dir = "."
			}
			var names []string
			if lit {
				names = []string{unquoteComp(comp)}
			} else {
				entries, isDir := fsmodel.ReadDir(fs, dir)
				if !isDir {
					continue
				}
				if dot {
					entries = append([]string{".", ".."}, entries...)
				}
				for _, e := range entries {
					if e != "" && e[0] == '.' && !dot {
						continue // hidden: only a literal leading period matches
					}
					if patMatch(toks, []rune(e)) {
						names = append(names, e)
					}
				}
			}
			for _, n := range names {
				p := prefix + n
				if !fsmodel.Exists(fs, p) {
					continue
				}
				if !last {
					// a component followed by a slash selects only directories
					if !fsmodel.IsDir(fs, p) {
						continue
					}
					p += "/"
				}
				next = append(next, p)
			}
		}
		cur = next
		if len(cur) == 0 {
			return nil, true
		}
	}
	// ascending byte order, no duplicates
	for i := 1; i < len(cur); i++ {
		for j := i; j > 0 && cur[j] < cur[j-1]; j-- {
			cur[j], cur[j-1] = cur[j-1], cur[j]
		}
	}
	var out []string
	for i, p := range cur {
		if i == 0 || p != cur[i-1] {
			out = append(out, p)
		}
	}
	return out, true
}

// symTree builds a working directory with n entries; entry names are one
// symbolic byte over nameAlpha (distinct), kinds are engine-enumerated; the
// first directory gets one child.
func symTree(n int, nameAlpha string) *fsmodel.FS {
	root := &fsmodel.Node{Kind: fsmodel.Dir}
	fs := &fsmodel.FS{Root: root, Cwd: root}
	for i := 0; i < n; i++ {
		name := nd.StrIn(1, nameAlpha)
		nd.Assume(name != ".")
		for _, c := range root.Children {
			nd.Assume(c.Name != name)
		}
		e := &fsmodel.Node{Name: name, Kind: nd.Choice(3)}
		if e.Kind == fsmodel.Dir {
			cn := nd.StrIn(1, nameAlpha)
			nd.Assume(cn != ".")
			e.Children = []*fsmodel.Node{{Name: cn, Kind: nd.Choice(2)}}
		}
		root.Children = append(root.Children, e)
	}
	return fs
}

func c16(k, nEntries int, patAlpha, nameAlpha string) {
	pat := choosePattern(k, patAlpha)
	if pat[0] == '/' || (len(pat) > 1 && pat[0] == '\\' && pat[1] == '/') {
		nd.Assume(false) // absolute patterns cannot be replayed against a scratch directory
	}
	if pat[len(pat)-1] == '\\' && (len(pat) < 2 || pat[len(pat)-2] != '\\') {
		nd.Assume(false) // a trailing lone backslash is undefined
	}
	fs := symTree(nEntries, nameAlpha)
	nd.SetFS(fs)
	got, err := pattern.Glob(string(pat))
	want, wf := refGlob(fs, pat)
	nd.Observe(string(pat))
	if !wf {
		nd.Cover("malformed")
		nd.Assert(err != nil || len(got) == 0, "a malformed component gives an error or nothing")
		return
	}
	nd.Assert(err == nil, "Glob of a well-formed pattern reports no error")
	if err != nil {
		return
	}
	if len(want) == 0 {
		nd.Cover("empty")
	} else {
		nd.Cover("matches")
	}
	nd.Assert(len(got) == len(want), "Glob returns exactly the existing matching paths (count)")
	if len(got) == len(want) {
		for i := range got {
			nd.Assert(got[i] == want[i], "Glob returns exactly the existing matching paths, in ascending order")
		}
	}
	for _, g := range got {
		nd.Observe(g)
	}
}

func C16_K2E2() { c16(2, 2, "a.*?[]\\/", "a.*b") }
func C16_K3E2() { c16(3, 2, "a.*?/", "a.b") }
func C16_K3E3() { c16(3, 3, "a.*?[]\\/", "a.*b") }
func C16_K4E2() { c16(4, 2, "a.*?/", "a.b") }
