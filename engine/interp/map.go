// Copyright 2013 The Go Authors. All rights reserved.
// Use of this source code is governed by a BSD-style
// license that can be found in the LICENSE file.

package interp

// Custom hashtable atop map.
// For use when the key's equivalence relation is not consistent with ==.

// The Go specification doesn't address the atomicity of map operations.
// The FAQ states that an implementation is permitted to crash on
// concurrent map access.

import (
	"go/types"
)

type hashable interface {
	hash(t types.Type) int
	eq(t types.Type, x interface{}) bool
}

type entry struct {
	key   hashable
	value value
	next  *entry
}

// A hashtable atop the built-in map.  Since each bucket contains
// exactly one hash value, there's no need to perform hash-equality
// tests when walking the linked list.  Rehashing is done by the
// underlying map.
type hashmap struct {
	keyType types.Type
	table   map[int]*entry
	length  int // number of entries in map
}

// makeMap returns an empty initialized map of key type kt,
// preallocating space for reserve elements.
func makeMap(kt types.Type, reserve int64) value {
	if symKeyMapType(kt) {
		return &smap{idx: map[string]int{}}
	}
	if usesBuiltinMap(kt) {
		return make(map[value]value, reserve)
	}
	return &hashmap{keyType: kt, table: make(map[int]*entry, reserve)}
}

// delete removes the association for key k, if any.
func (m *hashmap) delete(k hashable) {
	if m != nil {
		hash := k.hash(m.keyType)
		head := m.table[hash]
		if head != nil {
			if k.eq(m.keyType, head.key) {
				m.table[hash] = head.next
				m.length--
				return
			}
			prev := head
			for e := head.next; e != nil; e = e.next {
				if k.eq(m.keyType, e.key) {
					prev.next = e.next
					m.length--
					return
				}
				prev = e
			}
		}
	}
}

// lookup returns the value associated with key k, if present, or
// value(nil) otherwise.
func (m *hashmap) lookup(k hashable) value {
	if m != nil {
		hash := k.hash(m.keyType)
		for e := m.table[hash]; e != nil; e = e.next {
			if k.eq(m.keyType, e.key) {
				return e.value
			}
		}
	}
	return nil
}

// insert updates the map to associate key k with value v.  If there
// was already an association for an eq() (though not necessarily ==)
// k, the previous key remains in the map and its associated value is
// updated.
func (m *hashmap) insert(k hashable, v value) {
	hash := k.hash(m.keyType)
	head := m.table[hash]
	for e := head; e != nil; e = e.next {
		if k.eq(m.keyType, e.key) {
			e.value = v
			return
		}
	}
	m.table[hash] = &entry{
		key:   k,
		value: v,
		next:  head,
	}
	m.length++
}

// len returns the number of key/value associations in the map.
func (m *hashmap) len() int {
	if m != nil {
		return m.length
	}
	return 0
}

// entries returns a rangeable map of entries.
func (m *hashmap) entries() map[int]*entry {
	if m != nil {
		return m.table
	}
	return nil
}
