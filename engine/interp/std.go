package interp

// gosx: the standard-library boundary of go.sh. Each entry is either a host
// implementation that understands symbolic values (forking where a result is
// an index), or an environment stub. Everything not listed here is
// interpreted from the std source.

import (
	"bytes"
	"fmt"
	"go/token"
	"go/types"
	"regexp"
	"sort"
	"strconv"
	"strings"
	"unicode"
	"unicode/utf8"

	"golang.org/x/tools/go/ssa"
)

func nilErr() value { return iface{} }

// mkError builds an interpreted error value with the given message.
func (i *interpreter) mkError(msg value) value {
	fn := i.prog.ImportedPackage("errors").Func("New")
	return call(i, nil, token.NoPos, fn, []value{msg})
}

func builderBuf(recv value) *value {
	return &(*recv.(*value)).(structure)[1]
}

func bufOf(recv value) []value {
	b, _ := (*builderBuf(recv)).([]value)
	return b
}

// decide forks on a Bool value.
func (i *interpreter) decide(v value) bool {
	switch c := v.(type) {
	case bool:
		return c
	case sym:
		return i.px.branch(c.t)
	}
	panic(engineError{fmt.Sprintf("decide: %T", v)})
}

func (i *interpreter) scalarEq(a, b value) bool {
	return i.decide(symScalarEq(i, a, b))
}

// inSet returns a Bool value: rune r is one of the (concrete) runes of set.
func (i *interpreter) inSet(r value, set string) value {
	s, ok := r.(sym)
	if !ok {
		_, x, _ := kindOfValue(r)
		return strings.ContainsRune(set, rune(int32(x)))
	}
	tb := i.px.tb
	w, _ := kindInfo(s.k)
	acc := tb.ff
	for _, c := range set {
		if w == 8 && c >= 0x100 {
			continue
		}
		acc = tb.or(acc, tb.eq(s.t, tb.bv(uint64(c), w)))
	}
	return mkSym(acc, types.Bool)
}

func hasSym(v value) bool {
	switch x := v.(type) {
	case sym, sstr, decStr:
		return true
	case []value:
		for _, e := range x {
			if hasSym(e) {
				return true
			}
		}
	}
	return false
}

func anySym(vs ...value) bool {
	for _, v := range vs {
		if hasSym(v) {
			return true
		}
	}
	return false
}

// indexRune returns the byte index of the first rune equal to r.
func (i *interpreter) indexRune(s, r value) int {
	c := strCells(s)
	for pos := 0; pos < len(c); {
		rv, n := i.decodeRune(c[pos:])
		if i.scalarEq(rv, r) {
			return pos
		}
		pos += n
	}
	return -1
}

func (i *interpreter) indexStr(s, sub value) int {
	a, b := strCells(s), strCells(sub)
	for pos := 0; pos+len(b) <= len(a); pos++ {
		if i.decideEq(mkStr(a[pos:pos+len(b)]), mkStr(b)) {
			return pos
		}
	}
	return -1
}

// isClass evaluates a unicode predicate on a possibly symbolic rune: ASCII is
// expressed as a term; anything else is concretised and looked up in the real
// tables.
func (i *interpreter) isClass(r value, ascii func(tb *termTable, t *term) *term, host func(rune) bool) value {
	s, ok := r.(sym)
	if !ok {
		return host(r.(int32))
	}
	tb := i.px.tb
	if i.px.branch(tb.app(opULt, 0, s.t, tb.bv(0x80, 32), nil)) {
		return mkSym(ascii(tb, s.t), types.Bool)
	}
	return host(i.conc(r).(int32))
}

// inTables: membership of a (possibly symbolic) rune in range tables. On the
// ASCII half the answer is one term (the tables' ASCII members as ranges), so
// a symbolic ASCII character is not enumerated; beyond ASCII the rune is
// concretised (the representatives of D).
func (i *interpreter) inTables(r value, tabs []value) value {
	host := func(c rune) bool {
		for _, t := range tabs {
			if unicode.Is(hostTableOf(t), c) {
				return true
			}
		}
		return false
	}
	return i.isClass(r, func(tb *termTable, t *term) *term {
		res := tb.ff
		for lo := rune(0); lo < 0x80; lo++ {
			if !host(lo) {
				continue
			}
			hi := lo
			for hi+1 < 0x80 && host(hi+1) {
				hi++
			}
			res = tb.or(res, rng(tb, t, lo, hi))
			lo = hi
		}
		return res
	}, host)
}

// classByHost: a character predicate of package unicode on a (possibly
// symbolic) rune: one term on the ASCII half, concretisation beyond.
func (i *interpreter) classByHost(r value, host func(rune) bool) value {
	return i.isClass(r, func(tb *termTable, t *term) *term {
		res := tb.ff
		for lo := rune(0); lo < 0x80; lo++ {
			if !host(lo) {
				continue
			}
			hi := lo
			for hi+1 < 0x80 && host(hi+1) {
				hi++
			}
			res = tb.or(res, rng(tb, t, lo, hi))
			lo = hi
		}
		return res
	}, host)
}

func rng(tb *termTable, t *term, lo, hi rune) *term {
	return tb.and(tb.app(opULe, 0, tb.bv(uint64(lo), 32), t, nil), tb.app(opULe, 0, t, tb.bv(uint64(hi), 32), nil))
}

// hostRangeTable stands for a *unicode.RangeTable: the exported table
// variables of package unicode are bound to these at start-up (the package's
// init is not interpreted), so unicode.Is / In / IsOneOf reach the real tables.
type hostRangeTable struct {
	name string
	t    *unicode.RangeTable
}

func hostTableOf(v value) *unicode.RangeTable {
	if p, ok := v.(*value); ok && p != nil {
		if h, ok := (*p).(hostRangeTable); ok {
			return h.t
		}
	}
	panic(engineError{"unicode range table that is not one of the package's exported tables"})
}

var unicodeAliases = map[string]string{"Letter": "L", "Lower": "Ll", "Upper": "Lu", "Title": "Lt", "Digit": "Nd", "Number": "N",
	"Mark": "M", "Punct": "P", "Symbol": "S", "Space": "Z", "Other": "C"}

// hostUnicodeTable finds the real table behind the name of an exported
// variable of package unicode.
func hostUnicodeTable(name string) *unicode.RangeTable {
	if a, ok := unicodeAliases[name]; ok {
		name = a
	}
	if t, ok := unicode.Categories[name]; ok {
		return t
	}
	if t, ok := unicode.Properties[name]; ok {
		return t
	}
	if t, ok := unicode.Scripts[name]; ok {
		return t
	}
	return nil
}

type hostRegexp struct{ re *regexp.Regexp }

func reOf(v value) *regexp.Regexp { return (*v.(*value)).(hostRegexp).re }

func strSlice(vs []string) value {
	out := make([]value, len(vs))
	for j, s := range vs {
		out[j] = s
	}
	return out
}

func init() {
	for k, v := range map[string]externalFn{
		// ---- strings.Builder: the cell buffer lives in the interpreted struct's buf field
		"(*strings.Builder).Len":   func(fr *frame, a []value) value { return len(bufOf(a[0])) },
		"(*strings.Builder).Cap":   func(fr *frame, a []value) value { return cap(bufOf(a[0])) },
		"(*strings.Builder).Grow":  func(fr *frame, a []value) value { return nil },
		"(*strings.Builder).Reset": func(fr *frame, a []value) value { *builderBuf(a[0]) = []value(nil); return nil },
		"(*strings.Builder).String": func(fr *frame, a []value) value {
			return mkStr(append([]value(nil), bufOf(a[0])...))
		},
		"(*strings.Builder).WriteByte": func(fr *frame, a []value) value {
			*builderBuf(a[0]) = append(bufOf(a[0]), a[1])
			return nilErr()
		},
		"(*strings.Builder).WriteRune": func(fr *frame, a []value) value {
			c := strCells(fr.i.runeToStr(a[1]))
			*builderBuf(a[0]) = append(bufOf(a[0]), c...)
			return tuple{len(c), nilErr()}
		},
		"(*strings.Builder).WriteString": func(fr *frame, a []value) value {
			c := strCells(a[1])
			*builderBuf(a[0]) = append(bufOf(a[0]), c...)
			return tuple{len(c), nilErr()}
		},
		"(*strings.Builder).Write": func(fr *frame, a []value) value {
			c := a[1].([]value)
			*builderBuf(a[0]) = append(bufOf(a[0]), c...)
			return tuple{len(c), nilErr()}
		},
		// ---- synchronisation: scheduling points of the baton scheduler
		"(*sync.Mutex).Lock":   func(fr *frame, a []value) value { fr.i.sched.lock(a[0].(*value)); return nil },
		"(*sync.Mutex).Unlock": func(fr *frame, a []value) value { fr.i.sched.unlock(a[0].(*value)); return nil },
		"(*sync/atomic.Value).Load": func(fr *frame, a []value) value {
			fr.i.sched.yield()
			fr.i.sched.acquireAddr(a[0].(*value))
			return (*a[0].(*value)).(structure)[0]
		},
		"(*sync/atomic.Value).Store": func(fr *frame, a []value) value {
			fr.i.sched.yield()
			if a[1].(iface).t == nil {
				panic(targetPanic{"sync/atomic: store of nil value into Value"})
			}
			(*a[0].(*value)).(structure)[0] = a[1]
			fr.i.sched.releaseAddr(a[0].(*value))
			return nil
		},
		"sync/atomic.LoadUint32": func(fr *frame, a []value) value {
			fr.i.sched.yield()
			fr.i.sched.acquireAddr(a[0].(*value))
			return *a[0].(*value)
		},
		"sync/atomic.AddUint32": func(fr *frame, a []value) value {
			fr.i.sched.yield()
			p := a[0].(*value)
			fr.i.sched.acquireAddr(p)
			n := binop(fr.i, token.ADD, nil, *p, a[1])
			*p = n
			fr.i.sched.releaseAddr(p)
			return n
		},
		// ---- unicode
		"unicode.IsLetter": func(fr *frame, a []value) value {
			return fr.i.isClass(a[0], func(tb *termTable, t *term) *term {
				return tb.or(rng(tb, t, 'A', 'Z'), rng(tb, t, 'a', 'z'))
			}, unicode.IsLetter)
		},
		"unicode.IsDigit": func(fr *frame, a []value) value {
			return fr.i.isClass(a[0], func(tb *termTable, t *term) *term { return rng(tb, t, '0', '9') }, unicode.IsDigit)
		},
		"unicode.IsSpace": func(fr *frame, a []value) value {
			return fr.i.isClass(a[0], func(tb *termTable, t *term) *term {
				return tb.or(rng(tb, t, '\t', '\r'), tb.eq(t, tb.bv(' ', 32)))
			}, unicode.IsSpace)
		},
		"unicode.Is": func(fr *frame, a []value) value {
			return fr.i.inTables(a[1], []value{a[0]})
		},
		"unicode.In": func(fr *frame, a []value) value {
			return fr.i.inTables(a[0], a[1].([]value))
		},
		"unicode.IsOneOf": func(fr *frame, a []value) value {
			return fr.i.inTables(a[1], a[0].([]value))
		},
		"unicode.IsUpper": func(fr *frame, a []value) value { return fr.i.classByHost(a[0], unicode.IsUpper) },
		"unicode.IsLower": func(fr *frame, a []value) value { return fr.i.classByHost(a[0], unicode.IsLower) },
		"unicode.IsTitle": func(fr *frame, a []value) value { return fr.i.classByHost(a[0], unicode.IsTitle) },
		"unicode.IsNumber": func(fr *frame, a []value) value { return fr.i.classByHost(a[0], unicode.IsNumber) },
		"unicode.IsPunct": func(fr *frame, a []value) value { return fr.i.classByHost(a[0], unicode.IsPunct) },
		"unicode.IsSymbol": func(fr *frame, a []value) value { return fr.i.classByHost(a[0], unicode.IsSymbol) },
		"unicode.IsMark": func(fr *frame, a []value) value { return fr.i.classByHost(a[0], unicode.IsMark) },
		"unicode.IsControl": func(fr *frame, a []value) value { return fr.i.classByHost(a[0], unicode.IsControl) },
		"unicode.IsGraphic": func(fr *frame, a []value) value { return fr.i.classByHost(a[0], unicode.IsGraphic) },
		"unicode.IsPrint": func(fr *frame, a []value) value { return fr.i.classByHost(a[0], unicode.IsPrint) },
		"unicode.ToUpper":   func(fr *frame, a []value) value { return unicode.ToUpper(fr.i.conc(a[0]).(int32)) },
		"unicode.ToLower":   func(fr *frame, a []value) value { return unicode.ToLower(fr.i.conc(a[0]).(int32)) },
		"unicode.ToTitle":   func(fr *frame, a []value) value { return unicode.ToTitle(fr.i.conc(a[0]).(int32)) },
		// ---- strings
		"strings.IndexRune": func(fr *frame, a []value) value {
			if !anySym(a[0], a[1]) {
				return strings.IndexRune(a[0].(string), a[1].(int32))
			}
			return fr.i.indexRune(a[0], a[1])
		},
		"strings.ContainsRune": func(fr *frame, a []value) value {
			if !anySym(a[0], a[1]) {
				return strings.ContainsRune(a[0].(string), a[1].(int32))
			}
			if _, ok := a[0].(string); ok {
				// concrete set, symbolic rune: one disjunction, no fork
				return fr.i.inSet(a[1], a[0].(string))
			}
			return fr.i.indexRune(a[0], a[1]) >= 0
		},
		"strings.IndexByte": func(fr *frame, a []value) value {
			if !anySym(a[0], a[1]) {
				return strings.IndexByte(a[0].(string), a[1].(uint8))
			}
			for j, c := range strCells(a[0]) {
				if fr.i.scalarEq(c, a[1]) {
					return j
				}
			}
			return -1
		},
		"strings.IndexAny": func(fr *frame, a []value) value {
			if !anySym(a[0], a[1]) {
				return strings.IndexAny(a[0].(string), a[1].(string))
			}
			set := fr.i.conc(a[1]).(string)
			c := strCells(a[0])
			for pos := 0; pos < len(c); {
				rv, n := fr.i.decodeRune(c[pos:])
				if fr.i.decide(fr.i.inSet(rv, set)) {
					return pos
				}
				pos += n
			}
			return -1
		},
		"strings.Index": func(fr *frame, a []value) value {
			if !anySym(a[0], a[1]) {
				return strings.Index(a[0].(string), a[1].(string))
			}
			return fr.i.indexStr(a[0], a[1])
		},
		"strings.Contains": func(fr *frame, a []value) value {
			if !anySym(a[0], a[1]) {
				return strings.Contains(a[0].(string), a[1].(string))
			}
			return fr.i.indexStr(a[0], a[1]) >= 0
		},
		"strings.HasPrefix": func(fr *frame, a []value) value {
			if !anySym(a[0], a[1]) {
				return strings.HasPrefix(a[0].(string), a[1].(string))
			}
			if d, ok := a[0].(decStr); ok {
				a[0] = fr.i.forceStr(d, "HasPrefix")
			}
			s, p := strCells(a[0]), strCells(a[1])
			if len(p) > len(s) {
				return false
			}
			return fr.i.strEq(mkStr(s[:len(p):len(p)]), mkStr(p))
		},
		"strings.HasSuffix": func(fr *frame, a []value) value {
			if !anySym(a[0], a[1]) {
				return strings.HasSuffix(a[0].(string), a[1].(string))
			}
			s, p := strCells(a[0]), strCells(a[1])
			if len(p) > len(s) {
				return false
			}
			return fr.i.strEq(mkStr(s[len(s)-len(p):]), mkStr(p))
		},
		"strings.TrimRight": func(fr *frame, a []value) value {
			if !anySym(a[0], a[1]) {
				return strings.TrimRight(a[0].(string), a[1].(string))
			}
			set := fr.i.conc(a[1]).(string)
			c := strCells(a[0])
			n := len(c)
			for n > 0 {
				// (cut sets in go.sh are ASCII; a symbolic byte is ASCII or concretised by inSet)
				var in value
				if b, ok := c[n-1].(uint8); ok {
					in = strings.IndexByte(set, b) >= 0 && b < 0x80
				} else {
					in = fr.i.inSet(c[n-1], set)
				}
				if !fr.i.decide(in) {
					break
				}
				n--
			}
			return mkStr(c[:n:n])
		},
		"strings.Join": func(fr *frame, a []value) value {
			elems := a[0].([]value)
			if len(elems) == 1 {
				return elems[0]
			}
			if sp, ok := a[1].(string); ok && sp == "" {
				// joining with "" : empty elements do not matter (keeps a lone
				// decimal-of-symbolic-integer element intact)
				var ne []value
				for _, e := range elems {
					if s, ok := e.(string); ok && s == "" {
						continue
					}
					ne = append(ne, e)
				}
				if len(ne) == 1 {
					return ne[0]
				}
			}
			sep := strCells(a[1])
			var c []value
			for j, e := range elems {
				if j > 0 {
					c = append(c, sep...)
				}
				c = append(c, strCells(e)...)
			}
			return mkStr(c)
		},
		"strings.Repeat": func(fr *frame, a []value) value {
			n := fr.i.conc(a[1]).(int)
			if n < 0 {
				panic(targetPanic{"strings: negative Repeat count"})
			}
			var c []value
			for j := 0; j < n; j++ {
				c = append(c, strCells(a[0])...)
			}
			return mkStr(c)
		},
		"internal/stringslite.Clone": func(fr *frame, a []value) value { return a[0] },
		"strings.Clone":              func(fr *frame, a []value) value { return a[0] },
		// ---- utf8
		"unicode/utf8.RuneLen": func(fr *frame, a []value) value {
			if s, ok := a[0].(sym); ok {
				tb := fr.i.px.tb
				if fr.i.px.branch(tb.app(opULt, 0, s.t, tb.bv(0x80, 32), nil)) {
					return 1
				}
				return utf8.RuneLen(fr.i.conc(a[0]).(int32))
			}
			return utf8.RuneLen(a[0].(int32))
		},
		"unicode/utf8.RuneCountInString": func(fr *frame, a []value) value {
			if s, ok := a[0].(string); ok {
				return utf8.RuneCountInString(s)
			}
			c := strCells(a[0])
			n := 0
			for pos := 0; pos < len(c); n++ {
				_, w := fr.i.decodeRune(c[pos:])
				pos += w
			}
			return n
		},
		"unicode/utf8.DecodeRuneInString": func(fr *frame, a []value) value {
			if s, ok := a[0].(string); ok {
				r, n := utf8.DecodeRuneInString(s)
				return tuple{r, n}
			}
			c := strCells(a[0])
			if len(c) == 0 {
				return tuple{int32(utf8.RuneError), 0}
			}
			r, n := fr.i.decodeRune(c)
			return tuple{r, n}
		},
		// ---- strconv
		"strconv.Itoa": func(fr *frame, a []value) value {
			if s, ok := a[0].(sym); ok {
				return decStr{s, fr.i}
			}
			return strconv.Itoa(a[0].(int))
		},
		"strconv.Atoi": func(fr *frame, a []value) value {
			if d, ok := a[0].(decStr); ok {
				return tuple{sym{d.n.t, types.Int}, nilErr()}
			}
			s := fr.i.conc(a[0]).(string)
			n, err := strconv.Atoi(s)
			if err != nil {
				return tuple{n, fr.i.mkError(err.Error())}
			}
			return tuple{n, nilErr()}
		},
		"strconv.ParseInt": func(fr *frame, a []value) value {
			base, bits := fr.i.conc(a[1]).(int), fr.i.conc(a[2]).(int)
			if d, ok := a[0].(decStr); ok && (base == 0 || base == 10) && (bits == 0 || bits == 64) {
				return tuple{sym{d.n.t, types.Int64}, nilErr()}
			}
			s := fr.i.conc(a[0]).(string)
			n, err := strconv.ParseInt(s, base, bits)
			if err != nil {
				return tuple{n, fr.i.mkError(err.Error())}
			}
			return tuple{n, nilErr()}
		},
		// ---- bytes
		"bytes.Repeat": func(fr *frame, a []value) value {
			n := fr.i.conc(a[1]).(int)
			if n < 0 {
				panic(targetPanic{"bytes: negative Repeat count"})
			}
			b := a[0].([]value)
			if int64(n)*int64(len(b)) > 1<<20 {
				panic(budgetExceeded{})
			}
			out := make([]value, 0, n*len(b))
			for j := 0; j < n; j++ {
				out = append(out, b...)
			}
			return out
		},
		// ---- fmt
		"fmt.Sprintf": func(fr *frame, a []value) value {
			return fr.i.sprintf(fr.i.conc(a[0]).(string), a[1].([]value))
		},
		"fmt.Errorf": func(fr *frame, a []value) value {
			format := fr.i.conc(a[0]).(string)
			args := a[1].([]value)
			// %w: the result wraps the operand (fmt.wrapError; one %w only)
			if k := strings.Index(format, "%w"); k >= 0 && strings.Count(format, "%w") == 1 {
				n := 0
				for p := 0; p < k; p++ {
					if format[p] == '%' {
						if p+1 < len(format) && format[p+1] == '%' {
							p++
							continue
						}
						n++
					}
				}
				if n < len(args) {
					if w, ok := args[n].(iface); ok && w.t != nil && fr.i.methodByName(w.t, "Error") != nil {
						msg := fr.i.sprintf(strings.Replace(format, "%w", "%v", 1), args)
						if wt := fr.i.prog.ImportedPackage("fmt").Type("wrapError"); wt != nil {
							var cell value = structure{msg, w}
							return iface{types.NewPointer(wt.Type()), &cell}
						}
					}
				}
			}
			return fr.i.mkError(fr.i.sprintf(strings.ReplaceAll(format, "%w", "%v"), args))
		},
		"fmt.Sprint": func(fr *frame, a []value) value {
			return fr.i.sprintArgs(a[0].([]value), false)
		},
		"fmt.Printf": func(fr *frame, a []value) value {
			panic(engineError{"fmt.Printf reached (yyDebug?)"})
		},
		// ---- sort
		"sort.Strings": func(fr *frame, a []value) value {
			x := a[0].([]value)
			sort.SliceStable(x, func(p, q int) bool {
				xs, ok1 := x[p].(string)
				ys, ok2 := x[q].(string)
				if ok1 && ok2 {
					return xs < ys
				}
				return fr.i.strLess(x[p], x[q])
			})
			return nil
		},
		// ---- regexp (host objects; subjects are concretised)
		"regexp.Compile": func(fr *frame, a []value) value {
			src := fr.i.conc(a[0]).(string)
			re, err := regexp.Compile(src)
			if err != nil {
				return tuple{(*value)(nil), fr.i.mkError(err.Error())}
			}
			var cell value = hostRegexp{re}
			return tuple{&cell, nilErr()}
		},
		"regexp.MustCompile": func(fr *frame, a []value) value {
			var cell value = hostRegexp{regexp.MustCompile(fr.i.conc(a[0]).(string))}
			return &cell
		},
		"(*regexp.Regexp).String": func(fr *frame, a []value) value { return reOf(a[0]).String() },
		"(*regexp.Regexp).MatchString": func(fr *frame, a []value) value {
			return fr.i.reMatch(reOf(a[0]), a[1]) != nil
		},
		"(*regexp.Regexp).FindStringSubmatch": func(fr *frame, a []value) value {
			m := fr.i.reMatch(reOf(a[0]), a[1])
			if m == nil {
				return []value(nil)
			}
			return m
		},
		// ---- environment stubs
		"os.Environ":            func(fr *frame, a []value) value { return []value{} },
		"os.Getpid":             func(fr *frame, a []value) value { return 4242 },
		"path/filepath.ToSlash": func(fr *frame, a []value) value { return a[0] },
		"runtime.Gosched":       func(fr *frame, a []value) value { fr.i.sched.yield(); return nil },
	} {
		externals[k] = v
	}
	_ = bytes.Repeat
}

// reMatch runs the real regexp engine on a concrete subject (the symbolic
// model otherwise) and returns
// the submatch strings as interpreter values (nil: no match).
func (i *interpreter) reMatch(re *regexp.Regexp, subj value) []value {
	if s, ok := subj.(string); ok {
		m := re.FindStringSubmatch(s)
		if m == nil {
			return nil
		}
		return strSlice(m).([]value)
	}
	// symbolic subject: the regexp model (rxmodel.go)
	idx := i.rxFind(re, subj)
	if idx == nil {
		return nil
	}
	c := strCells(subj)
	out := make([]value, len(idx)/2)
	for j := range out {
		if idx[2*j] < 0 {
			out[j] = ""
		} else {
			out[j] = mkStr(c[idx[2*j]:idx[2*j+1]:idx[2*j+1]])
		}
	}
	return out
}

// sprintf is a small fmt.Sprintf for the verbs go.sh uses; symbolic
// arguments are concretised.
func (i *interpreter) sprintf(format string, args []value) string {
	var b strings.Builder
	n := 0
	for p := 0; p < len(format); p++ {
		c := format[p]
		if c != '%' || p+1 >= len(format) {
			b.WriteByte(c)
			continue
		}
		// %[flags][width][.precision]verb
		q := p + 1
		for q < len(format) && strings.IndexByte("+-# 0", format[q]) >= 0 {
			q++
		}
		for q < len(format) && (format[q] >= '0' && format[q] <= '9' || format[q] == '.') {
			q++
		}
		if q >= len(format) {
			b.WriteString("%!(NOVERB)")
			break
		}
		spec := format[p+1 : q]
		verb := format[q]
		p = q
		if verb == '%' {
			b.WriteByte('%')
			continue
		}
		if n >= len(args) {
			b.WriteString("%!" + string(verb) + "(MISSING)")
			continue
		}
		b.WriteString(i.fmtArgSpec(spec, verb, args[n]))
		n++
	}
	if n < len(args) {
		b.WriteString("%!(EXTRA ")
		for k := n; k < len(args); k++ {
			if k > n {
				b.WriteString(", ")
			}
			if t := args[k].(iface).t; t != nil {
				b.WriteString(t.String())
			} else {
				b.WriteString("<nil>")
			}
			b.WriteString("=" + i.fmtArg('v', args[k]))
		}
		b.WriteString(")")
	}
	return b.String()
}

func (i *interpreter) fmtArgSpec(spec string, verb byte, arg value) string {
	if spec == "" {
		return i.fmtArg(verb, arg)
	}
	itf, _ := arg.(iface)
	if itf.t != nil {
		switch x := i.conc(itf.v).(type) {
		case string, int, int8, int16, int32, int64, uint, uint8, uint16, uint32, uint64, uintptr, bool:
			return fmt.Sprintf("%"+spec+string(verb), x)
		}
	}
	if spec == "+" && verb == 'v' && itf.t != nil {
		if i.methodByName(itf.t, "Error") == nil && i.methodByName(itf.t, "String") == nil {
			return i.fmtComposite(itf.t, itf.v, 'V', 0) // 'V': %+v
		}
		return i.fmtArg('v', arg)
	}
	if verb == 's' || verb == 'v' || verb == 'q' {
		return fmt.Sprintf("%"+spec+"s", i.fmtArg(verb, arg))
	}
	return i.fmtArg(verb, arg)
}

func (i *interpreter) fmtArg(verb byte, arg value) string {
	itf, _ := arg.(iface)
	v := itf.v
	if verb == 'T' {
		if itf.t == nil {
			return "<nil>"
		}
		return itf.t.String()
	}
	if itf.t == nil {
		return "<nil>"
	}
	v = i.conc(v)
	f := "%" + string(verb)
	switch x := v.(type) {
	case string, int, int8, int16, int32, int64, uint, uint8, uint16, uint32, uint64, uintptr, bool:
		return fmt.Sprintf(f, x)
	}
	// error / Stringer
	if itf.t != nil && (verb == 'v' || verb == 's' || verb == 'q') {
		for _, name := range []string{"Error", "String"} {
			if m := i.methodByName(itf.t, name); m != nil {
				s := i.conc(call(i, nil, token.NoPos, m, []value{itf.v})).(string)
				return fmt.Sprintf(f, s)
			}
		}
	}
	if verb == 'v' || verb == 's' || verb == 'd' {
		return i.fmtComposite(itf.t, itf.v, verb, 0)
	}
	return toString(v)
}

// fmtComposite renders slices, arrays, maps, structs and pointers to them as
// fmt's %v does (elements are concretised).
func (i *interpreter) fmtComposite(t types.Type, v value, verb byte, depth int) string {
	if depth > 6 {
		return "..."
	}
	elem := func(et types.Type, ev value) string {
		av := iface{et, ev}
		if _, isI := et.Underlying().(*types.Interface); isI {
			av, _ = ev.(iface)
		}
		if verb == 'V' {
			return i.fmtArgSpec("+", 'v', av)
		}
		return i.fmtArg(verb, av)
	}
	switch u := t.Underlying().(type) {
	case *types.Slice:
		xs, _ := v.([]value)
		if b, ok := u.Elem().Underlying().(*types.Basic); ok && b.Kind() == types.Uint8 && verb == 's' {
			return i.conc(mkStr(xs)).(string)
		}
		parts := make([]string, len(xs))
		for k, x := range xs {
			parts[k] = elem(u.Elem(), x)
		}
		return "[" + strings.Join(parts, " ") + "]"
	case *types.Array:
		xs, _ := v.(array)
		parts := make([]string, len(xs))
		for k, x := range xs {
			parts[k] = elem(u.Elem(), x)
		}
		return "[" + strings.Join(parts, " ") + "]"
	case *types.Struct:
		xs, _ := v.(structure)
		parts := make([]string, len(xs))
		for k, x := range xs {
			parts[k] = elem(u.Field(k).Type(), x)
			if verb == 'V' {
				parts[k] = u.Field(k).Name() + ":" + parts[k]
			}
		}
		return "{" + strings.Join(parts, " ") + "}"
	case *types.Map:
		it := rangeIter(i, v, t)
		var parts []string
		for {
			kv := it.next() // (ok, key, value)
			if !kv[0].(bool) {
				break
			}
			parts = append(parts, elem(u.Key(), kv[1])+":"+elem(u.Elem(), kv[2]))
		}
		sort.Strings(parts) // fmt prints maps in key order (keys of one basic type)
		return "map[" + strings.Join(parts, " ") + "]"
	case *types.Pointer:
		p, _ := v.(*value)
		if p == nil {
			return "<nil>"
		}
		switch u.Elem().Underlying().(type) {
		case *types.Struct, *types.Array, *types.Slice, *types.Map:
			if depth == 0 {
				return "&" + i.fmtComposite(u.Elem(), *p, verb, depth+1)
			}
		}
		return "0xc000000000"
	}
	return toString(i.conc(v))
}

func (i *interpreter) methodByName(t types.Type, name string) *ssa.Function {
	ms := i.prog.MethodSets.MethodSet(t)
	for j := 0; j < ms.Len(); j++ {
		sel := ms.At(j)
		if sel.Obj().Name() == name {
			if sig, ok := sel.Type().(*types.Signature); ok && sig.Params().Len() == 0 && sig.Results().Len() == 1 {
				return i.prog.MethodValue(sel)
			}
		}
	}
	return nil
}

// ---------------------------------------------------------------- OS stubs

// hostDir is the engine's stand-in for an open directory (*os.File).
type hostDir struct {
	names []value
	pos   int
}

// fsCall invokes the harness's file-system model (package verifharness/fsmodel)
// on the per-path FS value installed by nd.SetFS; without one the file system
// is empty.
func (i *interpreter) fsCall(fn string, args ...value) (value, bool) {
	fs, ok := i.px.userdata["fs"]
	if !ok {
		return nil, false
	}
	pkg := i.prog.ImportedPackage("verifharness/fsmodel")
	if pkg == nil {
		return nil, false
	}
	f := pkg.Func(fn)
	return call(i, nil, token.NoPos, f, append([]value{fs}, args...)), true
}

func init() {
	for k, v := range map[string]externalFn{
		"os.Lstat": func(fr *frame, a []value) value {
			if r, ok := fr.i.fsCall("Exists", a[0]); ok && fr.i.decide(r) {
				return tuple{iface{}, nilErr()}
			}
			return tuple{iface{}, fr.i.mkError("lstat: no such file or directory")}
		},
		"os.Stat": func(fr *frame, a []value) value {
			if r, ok := fr.i.fsCall("Stat", a[0]); ok {
				t := r.(tuple)
				if fr.i.decide(t[1]) {
					return tuple{t[0], nilErr()}
				}
			}
			return tuple{iface{}, fr.i.mkError("stat: no such file or directory")}
		},
		"os.Open": func(fr *frame, a []value) value {
			if r, ok := fr.i.fsCall("ReadDir", a[0]); ok {
				t := r.(tuple)
				if fr.i.decide(t[1]) {
					var cell value = &hostDir{names: append([]value(nil), t[0].([]value)...)}
					return tuple{&cell, nilErr()}
				}
			}
			return tuple{(*value)(nil), fr.i.mkError("open: no such file or directory")}
		},
		"(*os.File).Readdirnames": func(fr *frame, a []value) value {
			d := (*a[0].(*value)).(*hostDir)
			n := fr.i.conc(a[1]).(int)
			if d.pos >= len(d.names) {
				if n <= 0 {
					return tuple{[]value{}, nilErr()}
				}
				eof := fr.i.prog.ImportedPackage("io").Var("EOF")
				return tuple{[]value(nil), *fr.i.globals[eof]}
			}
			end := len(d.names)
			if n > 0 && d.pos+n < end {
				end = d.pos + n
			}
			out := append([]value(nil), d.names[d.pos:end]...)
			d.pos = end
			return tuple{out, nilErr()}
		},
		"(*os.File).Close": func(fr *frame, a []value) value { return nilErr() },
		"os/user.Lookup": func(fr *frame, a []value) value {
			return tuple{(*value)(nil), fr.i.mkError("user: unknown user")}
		},
	} {
		externals[k] = v
	}
}
