package interp

// gosx: symbolic scalars (sym), symbolic strings (sstr), string-keyed maps
// (smap) and the operator hooks that make the interpreter handle them.

import (
	"fmt"
	"go/token"
	"go/types"
	"strconv"
	"unicode/utf8"
)

// sym is a symbolic scalar of Go basic kind k (Bool, IntN, UintN).
type sym struct {
	t *term
	k types.BasicKind
}

// sstr is a string with a concrete length whose bytes are uint8 or sym(Uint8).
// It is immutable. A string all of whose cells are concrete is a Go string.
type sstr struct{ c []value }

// decStr is the decimal representation of a symbolic integer (strconv.Itoa
// of a sym). Only ParseInt/Atoi, comparison with "" and storage are allowed.
// decStr: the decimal numeral of a symbolic integer (i: the interpreter of the
// path it belongs to, used when its digits have to be materialised).
type decStr struct {
	n sym
	i *interpreter
}

func kindInfo(k types.BasicKind) (w uint8, signed bool) {
	switch k {
	case types.Bool, types.UntypedBool:
		return 0, false
	case types.Int, types.Int64, types.UntypedInt:
		return 64, true
	case types.Int32, types.UntypedRune:
		return 32, true
	case types.Int16:
		return 16, true
	case types.Int8:
		return 8, true
	case types.Uint, types.Uint64, types.Uintptr:
		return 64, false
	case types.Uint32:
		return 32, false
	case types.Uint16:
		return 16, false
	case types.Uint8:
		return 8, false
	}
	panic(engineError{fmt.Sprintf("kindInfo: unsupported kind %v", k)})
}

func kindOfValue(v value) (types.BasicKind, uint64, bool) {
	switch x := v.(type) {
	case bool:
		if x {
			return types.Bool, 1, true
		}
		return types.Bool, 0, true
	case int:
		return types.Int, uint64(x), true
	case int64:
		return types.Int64, uint64(x), true
	case int32:
		return types.Int32, uint64(uint32(x)), true
	case int16:
		return types.Int16, uint64(uint16(x)), true
	case int8:
		return types.Int8, uint64(uint8(x)), true
	case uint:
		return types.Uint, uint64(x), true
	case uint64:
		return types.Uint64, x, true
	case uintptr:
		return types.Uintptr, uint64(x), true
	case uint32:
		return types.Uint32, uint64(x), true
	case uint16:
		return types.Uint16, uint64(x), true
	case uint8:
		return types.Uint8, uint64(x), true
	}
	return 0, 0, false
}

// mkConcrete builds the Go value of kind k from raw bits.
func mkConcrete(k types.BasicKind, x uint64) value {
	switch k {
	case types.Bool, types.UntypedBool:
		return x != 0
	case types.Int, types.UntypedInt:
		return int(x)
	case types.Int64:
		return int64(x)
	case types.Int32, types.UntypedRune:
		return int32(x)
	case types.Int16:
		return int16(x)
	case types.Int8:
		return int8(x)
	case types.Uint:
		return uint(x)
	case types.Uint64:
		return x
	case types.Uintptr:
		return uintptr(x)
	case types.Uint32:
		return uint32(x)
	case types.Uint16:
		return uint16(x)
	case types.Uint8:
		return uint8(x)
	}
	panic(engineError{fmt.Sprintf("mkConcrete: unsupported kind %v", k)})
}

// termOf returns the term of a scalar value (sym or concrete).
func (i *interpreter) termOf(v value) (*term, types.BasicKind) {
	if s, ok := v.(sym); ok {
		return s.t, s.k
	}
	k, x, ok := kindOfValue(v)
	if !ok {
		panic(engineError{fmt.Sprintf("termOf: not a scalar: %T", v)})
	}
	w, _ := kindInfo(k)
	if w == 0 {
		return i.px.tb.boolc(x != 0), k
	}
	return i.px.tb.bv(x, w), k
}

// mkSym wraps t; constants become concrete Go values again.
func mkSym(t *term, k types.BasicKind) value {
	if t.isConst() {
		return mkConcrete(k, signExtendFor(k, t.k))
	}
	return sym{t, k}
}

func signExtendFor(k types.BasicKind, x uint64) uint64 {
	w, signed := kindInfo(k)
	if signed && w != 0 && w < 64 {
		return uint64(sext64(x, w))
	}
	return x
}

// conc returns a concrete value for v, forking over the feasible values of a sym.
func (i *interpreter) conc(v value) value {
	switch s := v.(type) {
	case sym:
		x := i.px.concretize(s.t)
		return mkConcrete(s.k, signExtendFor(s.k, x))
	case sstr:
		return i.concStr(s)
	case decStr:
		return i.forceStr(s, "concretise")
	}
	return v
}

func (i *interpreter) concOpt(v value) value {
	if v == nil {
		return nil
	}
	return i.conc(v)
}

func (i *interpreter) concStr(s sstr) string {
	b := make([]byte, len(s.c))
	for j, c := range s.c {
		b[j] = i.conc(c).(uint8)
	}
	return string(b)
}

func (i *interpreter) forceStr(d decStr, why string) value {
	// the digits are needed: concretise the integer (one path per value; the
	// concretisation cap makes wide ranges inconclusive rather than wrong)
	switch n := i.conc(d.n).(type) {
	case int:
		return strconv.Itoa(n)
	case int64:
		return strconv.FormatInt(n, 10)
	case int32:
		return strconv.FormatInt(int64(n), 10)
	case uint:
		return strconv.FormatUint(uint64(n), 10)
	case uint64:
		return strconv.FormatUint(n, 10)
	case uint32:
		return strconv.FormatUint(uint64(n), 10)
	}
	panic(engineError{"decimal string of a symbolic integer inspected (" + why + ")"})
}

func isStringType(t types.Type) bool {
	b, ok := t.Underlying().(*types.Basic)
	return ok && b.Info()&types.IsString != 0
}

func isStr(v value) bool {
	switch v.(type) {
	case string, sstr, decStr:
		return true
	}
	return false
}

func strCells(v value) []value {
	switch s := v.(type) {
	case string:
		c := make([]value, len(s))
		for j := 0; j < len(s); j++ {
			c[j] = s[j]
		}
		return c
	case sstr:
		return s.c
	case decStr:
		return strCells(s.i.forceStr(s, "bytes"))
	}
	panic(engineError{fmt.Sprintf("strCells: %T", v)})
}

// mkStr builds a string value from cells (which must not be modified later).
func mkStr(c []value) value {
	allc := true
	for _, x := range c {
		if _, ok := x.(uint8); !ok {
			allc = false
			break
		}
	}
	if allc {
		b := make([]byte, len(c))
		for j, x := range c {
			b[j] = x.(uint8)
		}
		return string(b)
	}
	return sstr{c}
}

func strLen(v value) int {
	switch s := v.(type) {
	case string:
		return len(s)
	case sstr:
		return len(s.c)
	}
	panic(engineError{fmt.Sprintf("strLen: %T", v)})
}

func debugStr(s sstr) string {
	b := []byte{}
	for _, c := range s.c {
		if x, ok := c.(uint8); ok {
			b = append(b, x)
		} else {
			b = append(b, "‹"+c.(sym).t.String()+"›"...)
		}
	}
	return string(b)
}

// renderStr renders a (possibly symbolic) string under the current witness.
func (i *interpreter) renderStr(v value) string {
	switch s := v.(type) {
	case string:
		return s
	case sstr:
		b := make([]byte, len(s.c))
		for j, c := range s.c {
			if x, ok := c.(uint8); ok {
				b[j] = x
			} else {
				b[j] = byte(i.px.tb.eval(c.(sym).t, i.px.witness))
			}
		}
		return string(b)
	case decStr:
		return strconv.FormatInt(int64(i.px.tb.eval(s.n.t, i.px.witness)), 10)
	}
	return fmt.Sprint(v)
}

// strEqTerm returns a Bool term (or concrete bool) for x == y.
func (i *interpreter) strEq(x, y value) value {
	if dx, ok := x.(decStr); ok {
		return i.decStrEq(dx, y)
	}
	if dy, ok := y.(decStr); ok {
		return i.decStrEq(dy, x)
	}
	a, b := strCells(x), strCells(y)
	if len(a) != len(b) {
		return false
	}
	tb := i.px.tb
	acc := tb.tt
	for j := range a {
		ca, ia := a[j].(uint8)
		cb, ib := b[j].(uint8)
		if ia && ib {
			if ca != cb {
				return false
			}
			continue
		}
		ta, _ := i.termOf(a[j])
		tc, _ := i.termOf(b[j])
		acc = tb.and(acc, tb.eq(ta, tc))
	}
	return mkSym(acc, types.Bool)
}

func (i *interpreter) decStrEq(d decStr, o value) value {
	tb := i.px.tb
	switch o := o.(type) {
	case string:
		n, err := strconv.ParseInt(o, 10, 64)
		if err != nil || strconv.FormatInt(n, 10) != o {
			return false // not a canonical decimal numeral: never equal to Itoa output
		}
		return mkSym(tb.eq(d.n.t, tb.bv(uint64(n), 64)), types.Bool)
	case decStr:
		return mkSym(tb.eq(d.n.t, o.n.t), types.Bool)
	}
	panic(engineError{"decimal string of a symbolic integer compared with a symbolic string"})
}

// strLess decides x < y by forking on the first differing cell.
func (i *interpreter) strLess(x, y value) bool {
	a, b := strCells(x), strCells(y)
	tb := i.px.tb
	for j := 0; j < len(a) && j < len(b); j++ {
		ta, _ := i.termOf(a[j])
		tc, _ := i.termOf(b[j])
		if i.px.branch(tb.eq(ta, tc)) {
			continue
		}
		return i.px.branch(tb.app(opULt, 0, ta, tc, nil))
	}
	return len(a) < len(b)
}

func symNot(i *interpreter, v value) value {
	if s, ok := v.(sym); ok {
		return mkSym(i.px.tb.not(s.t), types.Bool)
	}
	return !v.(bool)
}

// symEquals extends equals() to symbolic scalars and strings; the result is
// a bool or a sym(Bool).
func symEquals(i *interpreter, t types.Type, x, y value) value {
	switch x.(type) {
	case sym:
		return symScalarEq(i, x, y)
	case sstr, decStr:
		return i.strEq(x, y)
	case string:
		switch y.(type) {
		case sstr, decStr:
			return i.strEq(x, y)
		}
	case structure:
		return i.deepEq(t, x, y)
	case array:
		return i.deepEq(t, x, y)
	case iface:
		xi, yi := x.(iface), y.(iface)
		if xi.t == nil || yi.t == nil {
			return xi.t == nil && yi.t == nil
		}
		if !sameType(xi.t, yi.t) {
			return false
		}
		return symEquals(i, xi.t, xi.v, yi.v)
	}
	switch y.(type) {
	case sym:
		return symScalarEq(i, x, y)
	}
	return equals(t, x, y)
}

func symScalarEq(i *interpreter, x, y value) value {
	ta, _ := i.termOf(x)
	tc, _ := i.termOf(y)
	return mkSym(i.px.tb.eq(ta, tc), types.Bool)
}

// deepEq compares structs/arrays that may contain symbolic fields.
func (i *interpreter) deepEq(t types.Type, x, y value) value {
	var xs, ys []value
	var ft func(int) types.Type
	switch xv := x.(type) {
	case structure:
		xs, ys = xv, y.(structure)
		st := t.Underlying().(*types.Struct)
		ft = func(j int) types.Type { return st.Field(j).Type() }
	case array:
		xs, ys = xv, y.(array)
		et := t.Underlying().(*types.Array).Elem()
		ft = func(int) types.Type { return et }
	}
	tb := i.px.tb
	acc := tb.tt
	for j := range xs {
		if st, ok := t.Underlying().(*types.Struct); ok && st.Field(j).Name() == "_" {
			continue
		}
		r := symEquals(i, ft(j), xs[j], ys[j])
		switch r := r.(type) {
		case bool:
			if !r {
				return false
			}
		case sym:
			acc = tb.and(acc, r.t)
		}
	}
	return mkSym(acc, types.Bool)
}

func basicKindOf(t types.Type) (types.BasicKind, bool) {
	if t == nil {
		return 0, false
	}
	b, ok := t.Underlying().(*types.Basic)
	if !ok {
		return 0, false
	}
	k := b.Kind()
	switch k {
	case types.UntypedInt:
		k = types.Int
	case types.UntypedRune:
		k = types.Int32
	case types.UntypedBool:
		k = types.Bool
	}
	return k, true
}

// symBinop handles binary operators when an operand is symbolic.
func symBinop(i *interpreter, op token.Token, t types.Type, x, y value) (value, bool) {
	_, xs := x.(sym)
	_, ys := y.(sym)
	if !xs && !ys {
		// strings with symbolic content
		if isStr(x) && isStr(y) {
			_, xc := x.(string)
			_, yc := y.(string)
			if xc && yc {
				return nil, false
			}
			switch op {
			case token.ADD:
				if d, ok := x.(decStr); ok {
					x = i.forceStr(d, "concatenated")
				}
				if d, ok := y.(decStr); ok {
					y = i.forceStr(d, "concatenated")
				}
				if xs, ok := x.(string); ok {
					if ys, ok := y.(string); ok {
						return xs + ys, true
					}
				}
				a, b := strCells(x), strCells(y)
				c := make([]value, 0, len(a)+len(b))
				c = append(append(c, a...), b...)
				return mkStr(c), true
			case token.EQL:
				return i.strEq(x, y), true
			case token.NEQ:
				return symNot(i, i.strEq(x, y)), true
			case token.LSS:
				return i.strLess(x, y), true
			case token.GTR:
				return i.strLess(y, x), true
			case token.LEQ:
				return !i.strLess(y, x), true
			case token.GEQ:
				return !i.strLess(x, y), true
			}
		}
		return nil, false
	}
	tb := i.px.tb
	a, ka := i.termOf(x)
	b, kb := i.termOf(y)
	k := ka
	if !xs {
		// prefer the static type when available
		if bk, ok := basicKindOf(t); ok {
			k = bk
		}
	}
	w, signed := kindInfo(k)
	if w == 0 {
		switch op {
		case token.EQL:
			return mkSym(tb.eq(a, b), types.Bool), true
		case token.NEQ:
			return mkSym(tb.not(tb.eq(a, b)), types.Bool), true
		}
		panic(engineError{"symBinop: bool op " + op.String()})
	}
	sel := func(s, u termOp) termOp {
		if signed {
			return s
		}
		return u
	}
	bin := func(o termOp) (value, bool) { return mkSym(tb.app(o, w, a, b, nil), k), true }
	cmp := func(o termOp, swap, neg bool) (value, bool) {
		l, r := a, b
		if swap {
			l, r = b, a
		}
		c := tb.app(o, 0, l, r, nil)
		if neg {
			c = tb.not(c)
		}
		return mkSym(c, types.Bool), true
	}
	switch op {
	case token.ADD:
		return bin(opAdd)
	case token.SUB:
		return bin(opSub)
	case token.MUL:
		return bin(opMul)
	case token.QUO, token.REM:
		if i.px.branch(tb.eq(b, tb.bv(0, w))) {
			panic(rtErr("integer divide by zero"))
		}
		if op == token.QUO {
			return bin(sel(opSDiv, opUDiv))
		}
		return bin(sel(opSRem, opURem))
	case token.AND:
		return bin(opBvAnd)
	case token.OR:
		return bin(opBvOr)
	case token.XOR:
		return bin(opBvXor)
	case token.AND_NOT:
		return mkSym(tb.app(opBvAnd, w, a, tb.app(opBvNot, w, b, nil, nil), nil), k), true
	case token.SHL, token.SHR:
		// the count has its own type
		wb, sb := kindInfo(kb)
		if sb {
			if i.px.branch(tb.app(opSLt, 0, b, tb.bv(0, wb), nil)) {
				panic(rtErr("negative shift amount"))
			}
		}
		cnt := b
		if wb < w {
			cnt = tb.app(opZExt, w, b, nil, nil)
		} else if wb > w {
			big := tb.app(opULe, 0, tb.bv(uint64(w), wb), b, nil)
			cnt = tb.ite(big, tb.bv(uint64(w), w), tb.app(opExtract, w, b, nil, nil))
		}
		if op == token.SHL {
			return mkSym(tb.app(opShl, w, a, cnt, nil), k), true
		}
		return mkSym(tb.app(sel(opAShr, opLShr), w, a, cnt, nil), k), true
	case token.EQL:
		return mkSym(tb.eq(a, b), types.Bool), true
	case token.NEQ:
		return mkSym(tb.not(tb.eq(a, b)), types.Bool), true
	case token.LSS:
		return cmp(sel(opSLt, opULt), false, false)
	case token.LEQ:
		return cmp(sel(opSLe, opULe), false, false)
	case token.GTR:
		return cmp(sel(opSLt, opULt), true, false)
	case token.GEQ:
		return cmp(sel(opSLe, opULe), true, false)
	}
	panic(engineError{"symBinop: op " + op.String()})
}

func symUnop(i *interpreter, op token.Token, x value) (value, bool) {
	s, ok := x.(sym)
	if !ok {
		return nil, false
	}
	tb := i.px.tb
	w, _ := kindInfo(s.k)
	switch op {
	case token.SUB:
		return mkSym(tb.app(opNeg, w, s.t, nil, nil), s.k), true
	case token.XOR:
		return mkSym(tb.app(opBvNot, w, s.t, nil, nil), s.k), true
	case token.NOT:
		return mkSym(tb.not(s.t), types.Bool), true
	}
	return nil, false
}

// symConv handles conversions that involve symbolic values.
func symConv(i *interpreter, ut_dst, ut_src types.Type, x value) (value, bool) {
	tb := i.px.tb
	switch xv := x.(type) {
	case sym:
		bd, ok := ut_dst.(*types.Basic)
		if !ok {
			panic(engineError{fmt.Sprintf("symConv: sym -> %s", ut_dst)})
		}
		if bd.Info()&types.IsString != 0 {
			// string(rune)
			return i.runeToStr(x), true
		}
		if bd.Info()&types.IsInteger == 0 {
			panic(engineError{fmt.Sprintf("symConv: sym -> %s", ut_dst)})
		}
		wd, _ := kindInfo(bd.Kind())
		ws, ssig := kindInfo(xv.k)
		switch {
		case wd == ws:
			return sym{xv.t, bd.Kind()}, true
		case wd < ws:
			return mkSym(tb.app(opExtract, wd, xv.t, nil, nil), bd.Kind()), true
		case ssig:
			return mkSym(tb.app(opSExt, wd, xv.t, nil, nil), bd.Kind()), true
		default:
			return mkSym(tb.app(opZExt, wd, xv.t, nil, nil), bd.Kind()), true
		}
	case sstr:
		switch d := ut_dst.(type) {
		case *types.Basic:
			if d.Info()&types.IsString != 0 {
				return x, true
			}
		case *types.Slice:
			switch d.Elem().Underlying().(*types.Basic).Kind() {
			case types.Byte:
				return append([]value(nil), xv.c...), true
			case types.Rune:
				var res []value
				it := &cellIter{i: i, c: xv.c}
				for {
					t := it.next()
					if !t[0].(bool) {
						break
					}
					res = append(res, t[2])
				}
				return res, true
			}
		}
		panic(engineError{fmt.Sprintf("symConv: sstr -> %s", ut_dst)})
	case decStr:
		if d, ok := ut_dst.(*types.Basic); ok && d.Info()&types.IsString != 0 {
			return x, true
		}
		panic(engineError{"decimal string of a symbolic integer converted"})
	case []value:
		// []byte / []rune with symbolic elements -> string
		if d, ok := ut_dst.(*types.Basic); ok && d.Info()&types.IsString != 0 {
			anySym := false
			for _, e := range xv {
				if _, ok := e.(sym); ok {
					anySym = true
					break
				}
			}
			if !anySym {
				return nil, false
			}
			if ut_src.(*types.Slice).Elem().Underlying().(*types.Basic).Kind() == types.Byte {
				return mkStr(append([]value(nil), xv...)), true
			}
			var c []value
			for _, e := range xv {
				c = append(c, strCells(i.runeToStr(e))...)
			}
			return mkStr(c), true
		}
	}
	return nil, false
}

// runeToStr implements string(r) for a possibly symbolic rune: an ASCII rune
// is one (symbolic) byte; anything else is concretised first.
func (i *interpreter) runeToStr(r value) value {
	s, ok := r.(sym)
	if !ok {
		_, x, _ := kindOfValue(r)
		return string(rune(int32(x)))
	}
	tb := i.px.tb
	w, _ := kindInfo(s.k)
	t := s.t
	if w != 32 {
		if w < 32 {
			t = tb.app(opZExt, 32, t, nil, nil)
		} else {
			// values outside the int32 range are invalid runes: concretise
			v := i.conc(r)
			_, x, _ := kindOfValue(v)
			if int64(x) < 0 || x > utf8.MaxRune {
				return string(utf8.RuneError)
			}
			return string(rune(x))
		}
	}
	if i.px.branch(tb.app(opULt, 0, t, tb.bv(0x80, 32), nil)) {
		return sstr{[]value{sym{tb.app(opExtract, 8, t, nil, nil), types.Uint8}}}
	}
	x := i.px.concretize(t)
	return string(rune(int32(x)))
}

// ---------------------------------------------------------------- iterators

// cellIter ranges over a string with possibly symbolic bytes, decoding UTF-8.
// A symbolic byte must be ASCII (decided by the solver, forked otherwise it is
// concretised).
type cellIter struct {
	i   *interpreter
	c   []value
	pos int
}

func (it *cellIter) next() tuple {
	okv := make(tuple, 3)
	if it.pos >= len(it.c) {
		okv[0] = false
		return okv
	}
	r, n := it.i.decodeRune(it.c[it.pos:])
	okv[0] = true
	okv[1] = it.pos
	okv[2] = r
	it.pos += n
	return okv
}

// decodeRune decodes the first rune of cells c (len(c) > 0).
func (i *interpreter) decodeRune(c []value) (value, int) {
	if s, ok := c[0].(sym); ok {
		tb := i.px.tb
		if i.px.branch(tb.app(opULt, 0, s.t, tb.bv(0x80, 8), nil)) {
			return sym{tb.app(opZExt, 32, s.t, nil, nil), types.Int32}, 1
		}
	}
	// concrete lead byte (or a non-ASCII symbolic byte: concretise the group)
	var buf [4]byte
	n := 0
	for n < 4 && n < len(c) {
		b, ok := c[n].(uint8)
		if !ok {
			if n == 0 {
				b = i.conc(c[n]).(uint8)
			} else {
				// continuation position: is it a continuation byte?
				s := c[n].(sym)
				tb := i.px.tb
				isCont := tb.eq(tb.app(opBvAnd, 8, s.t, tb.bv(0xC0, 8), nil), tb.bv(0x80, 8))
				if !i.px.branch(isCont) {
					break
				}
				b = i.conc(c[n]).(uint8)
			}
		}
		buf[n] = b
		n++
		if n == 1 && b < 0x80 {
			break
		}
	}
	r, sz := utf8.DecodeRune(buf[:n])
	return r, sz
}

type listIter struct {
	keys, vals []value
	pos        int
}

func (it *listIter) next() tuple {
	if it.pos >= len(it.keys) {
		return []value{false, nil, nil}
	}
	k, v := it.keys[it.pos], it.vals[it.pos]
	it.pos++
	return []value{true, k, v}
}

func (it *listIter) Len() int { return len(it.keys) }
func (it *listIter) Swap(a, b int) {
	it.keys[a], it.keys[b] = it.keys[b], it.keys[a]
	it.vals[a], it.vals[b] = it.vals[b], it.vals[a]
}
func (it *listIter) Less(a, b int) bool { return toString(it.keys[a]) < toString(it.keys[b]) }

// ---------------------------------------------------------------- smap

// smap is a map keyed by strings or by integer / boolean scalars, in insertion
// order, whose keys may be symbolic. Lookups with (or among) symbolic keys fork
// on equality; concrete keys are found through an index.
type smap struct {
	keys []value
	vals []value
	idx  map[string]int // concrete keys (canonical text) -> position
	nsym int
}

// symKeyMapType: key types for which smap is used.
func symKeyMapType(t types.Type) bool {
	b, ok := t.Underlying().(*types.Basic)
	return ok && b.Info()&(types.IsString|types.IsInteger|types.IsBoolean) != 0
}

// keyText returns the canonical text of a concrete key.
func keyText(k value) (string, bool) {
	switch x := k.(type) {
	case string:
		return x, true
	case bool:
		if x {
			return "t", true
		}
		return "f", true
	case int:
		return strconv.FormatInt(int64(x), 10), true
	case int8:
		return strconv.FormatInt(int64(x), 10), true
	case int16:
		return strconv.FormatInt(int64(x), 10), true
	case int32:
		return strconv.FormatInt(int64(x), 10), true
	case int64:
		return strconv.FormatInt(x, 10), true
	case uint:
		return strconv.FormatUint(uint64(x), 10), true
	case uint8:
		return strconv.FormatUint(uint64(x), 10), true
	case uint16:
		return strconv.FormatUint(uint64(x), 10), true
	case uint32:
		return strconv.FormatUint(uint64(x), 10), true
	case uint64:
		return strconv.FormatUint(x, 10), true
	case uintptr:
		return strconv.FormatUint(uint64(x), 10), true
	}
	return "", false
}

func (i *interpreter) keyEq(a, b value) bool {
	if isStr(a) || isStr(b) {
		return i.decideEq(a, b)
	}
	return i.scalarEq(a, b)
}

func (m *smap) len() int {
	if m == nil {
		return 0
	}
	return len(m.keys)
}

func (m *smap) find(i *interpreter, k value) int {
	if m == nil {
		return -1
	}
	if ks, ok := keyText(k); ok {
		if j, ok := m.idx[ks]; ok {
			return j
		}
		if m.nsym == 0 {
			return -1
		}
		for j, kk := range m.keys {
			if _, ok := keyText(kk); ok {
				continue
			}
			if i.keyEq(kk, k) {
				return j
			}
		}
		return -1
	}
	for j, kk := range m.keys {
		if i.keyEq(kk, k) {
			return j
		}
	}
	return -1
}

func (i *interpreter) decideEq(a, b value) bool {
	switch r := i.strEq(a, b).(type) {
	case bool:
		return r
	case sym:
		return i.px.branch(r.t)
	}
	panic("decideEq")
}

func (m *smap) lookup(i *interpreter, k value) (value, bool) {
	j := m.find(i, k)
	if j < 0 {
		return nil, false
	}
	return m.vals[j], true
}

func (m *smap) insert(i *interpreter, k, v value) {
	if m == nil {
		panic(targetPanic{"assignment to entry in nil map"})
	}
	if j := m.find(i, k); j >= 0 {
		m.vals[j] = v
		return
	}
	if ks, ok := keyText(k); ok {
		m.idx[ks] = len(m.keys)
	} else {
		m.nsym++
	}
	m.keys = append(m.keys, k)
	m.vals = append(m.vals, v)
}

func (m *smap) delete(i *interpreter, k value) {
	j := m.find(i, k)
	if j < 0 {
		return
	}
	if ks, ok := keyText(m.keys[j]); ok {
		delete(m.idx, ks)
	} else {
		m.nsym--
	}
	m.keys = append(m.keys[:j:j], m.keys[j+1:]...)
	m.vals = append(m.vals[:j:j], m.vals[j+1:]...)
	for k2, p := range m.idx {
		if p > j {
			m.idx[k2] = p - 1
		}
	}
}
