package h

import (
	"github.com/hattya/go.sh/ast"
	"github.com/hattya/go.sh/parser"
	"verifharness/nd"
)

// C07 — one call consumes exactly one complete command from the stream.
//
// A is a complete command that the parser accepts on its own, consuming all of
// it. The stream is A, a newline, and a second command B. The first call on
// the stream must give the same result as parsing A alone and leave the
// scanner at the first character of B; the second call must give B.

func parseOne(s *Scanner) ([]ast.Command, []*ast.Comment, error) {
	cmds, comments, err := parser.ParseCommands(nil, "src", s)
	nd.Drain()
	return cmds, comments, err
}

func commentsStr(cs []*ast.Comment) string {
	out := ""
	for _, c := range cs {
		out += "#" + c.Text + "|"
	}
	return out
}

func c07(a []rune) {
	if len(a) > 0 && a[len(a)-1] == '\\' {
		nd.Assume(false) // a trailing backslash joins the next line: not a complete command
	}
	if len(a) > 1 && a[len(a)-1] == '\n' && a[len(a)-2] == '\\' {
		nd.Assume(false) // a trailing line continuation joins the next line
	}
	for i := 0; i < len(a); i++ {
		r := a[i]
		if r == '#' {
			// a comment that nothing precedes is skipped together with the
			// following lines (pinned by the repository's own tests)
			nd.Cover("comment-only")
			return
		}
		if r == '\\' && i+1 < len(a) && a[i+1] == '\n' {
			i++
			continue
		}
		if r != ' ' && r != '\t' {
			break
		}
	}
	sa := NewScanner(a)
	cmdsA, commA, errA := parseOne(sa)
	if errA != nil || sa.I != len(a) {
		nd.Cover("not-a-single-complete-command")
		return
	}
	if len(cmdsA) == 0 && len(commA) != 0 {
		// a comment that nothing precedes is skipped together with the
		// following lines (pinned by the repository's own tests): not a command
		nd.Cover("comment-only")
		return
	}
	nd.Cover("complete")
	b := []rune("zz y\n")
	stream := append([]rune{}, a...)
	endsNL := len(a) > 0 && a[len(a)-1] == '\n'
	if !endsNL {
		stream = append(stream, '\n')
	}
	startB := len(stream)
	stream = append(stream, b...)
	s := NewScanner(stream)
	cmds1, comm1, err1 := parseOne(s)
	nd.Observe(string(a))
	nd.Assert(err1 == nil, "the first command of a stream parses as it does alone")
	if err1 != nil {
		return
	}
	nd.Assert(Skel(cmds1) == Skel(cmdsA), "the first call returns exactly the first command")
	nd.Assert(commentsStr(comm1) == commentsStr(commA), "the first call returns exactly the first command's comments")
	nd.Assert(s.I == startB, "after the call the scanner is at the first character of the next command")
	if s.I != startB {
		return
	}
	cmds2, _, err2 := parseOne(s)
	nd.Assert(err2 == nil && Skel(cmds2) == "[(cmd (simple <lit:zz> <lit:y>))]", "the second call returns the second command")
	nd.Assert(s.I == len(stream), "the second call consumes the second command through its newline")
}

func C07_T0() { c07([]rune(Templates[nd.Choice(len(Templates))])) }
func C07_T1() { c07(holeTemplate()) }
func C07_F2() { c07(freeRunes(2, false)) }
func C07_F3() { c07(freeRunes(3, false)) }

// C07_Blank: blank lines yield empty results and consume exactly one line.
func C07_Blank() {
	n := 1 + nd.Choice(3)
	var stream []rune
	for i := 0; i < n; i++ {
		if nd.Choice(2) == 1 {
			stream = append(stream, nd.RuneIn(" \t"))
		}
		stream = append(stream, '\n')
	}
	ends := []int{}
	for i, r := range stream {
		if r == '\n' {
			ends = append(ends, i+1)
		}
	}
	stream = append(stream, []rune("zz y\n")...)
	s := NewScanner(stream)
	for i := 0; i < n; i++ {
		cmds, _, err := parseOne(s)
		nd.Assert(err == nil && len(cmds) == 0, "a blank line yields an empty result")
		nd.Assert(s.I == ends[i], "a blank line consumes exactly that line")
	}
	cmds, _, err := parseOne(s)
	nd.Assert(err == nil && Skel(cmds) == "[(cmd (simple <lit:zz> <lit:y>))]", "the command after blank lines is returned")
}

// c07Ref: the stream a + "zz y\n" is cut into commands by the independent
// recogniser; successive ParseCommands calls on one scanner must stop at
// exactly those cuts (the parser's own solo parse is not consulted, so a
// change that makes both the solo parse and the stream parse stop early is
// still seen).
func c07Ref(a []rune) {
	if contInHeredoc(a) {
		nd.Assume(false)
	}
	stream := append([]rune{}, a...)
	if len(a) == 0 || a[len(a)-1] != '\n' {
		stream = append(stream, '\n')
	}
	stream = append(stream, []rune("zz y\n")...)
	c07Stream(stream)
}

// c07Stream: successive calls on one scanner stop exactly at the recogniser's cuts.
func c07Stream(stream []rune) {
	nd.Observe(string(stream))
	s := NewScanner(stream)
	off := 0
	for call := 0; call < 6 && off < len(stream); call++ {
		v, end := RefParse(stream[off:])
		if v != RefComplete {
			nd.Cover("ref-rejects")
			return
		}
		_, _, err := parseOne(s)
		nd.Assert(err == nil, "each command the recogniser delimits in the stream is accepted")
		if err != nil {
			return
		}
		nd.Assert(s.I == off+end, "each call stops exactly where the recogniser cuts the stream")
		if s.I != off+end {
			return
		}
		off += end
	}
	if off == len(stream) {
		nd.Cover("stream-consumed")
	}
}

func C07_Ref_T1() { c07Ref(holeTemplate()) }
func C07_Ref_F3() { c07Ref(freeRunes(3, false)) }
