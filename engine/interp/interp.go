// Copyright 2013 The Go Authors. All rights reserved.
// Use of this source code is governed by a BSD-style
// license that can be found in the LICENSE file.

// Package ssa/interp defines an interpreter for the SSA
// representation of Go programs.
//
// This interpreter is provided as an adjunct for testing the SSA
// construction algorithm.  Its purpose is to provide a minimal
// metacircular implementation of the dynamic semantics of each SSA
// instruction.  It is not, and will never be, a production-quality Go
// interpreter.
//
// The following is a partial list of Go features that are currently
// unsupported or incomplete in the interpreter.
//
// * Unsafe operations, including all uses of unsafe.Pointer, are
// impossible to support given the "boxed" value representation we
// have chosen.
//
// * The reflect package is only partially implemented.
//
// * The "testing" package is no longer supported because it
// depends on low-level details that change too often.
//
// * "sync/atomic" operations are not atomic due to the "boxed" value
// representation: it is not possible to read, modify and write an
// interface value atomically. As a consequence, Mutexes are currently
// broken.
//
// * recover is only partially implemented.  Also, the interpreter
// makes no attempt to distinguish target panics from interpreter
// crashes.
//
// * the sizes of the int, uint and uintptr types in the target
// program are assumed to be the same as those of the interpreter
// itself.
//
// * all values occupy space, even those of types defined by the spec
// to have zero size, e.g. struct{}.  This can cause asymptotic
// performance degradation.
//
// * os.Exit is implemented using panic, causing deferred functions to
// run.
package interp // import "golang.org/x/tools/go/ssa/interp"

import (
	"runtime/debug"
	"strings"
	"sync"
	"fmt"
	"go/token"
	"go/types"
	"log"
	"os"
	"runtime"
	"slices"
	_ "unsafe"

	"golang.org/x/tools/go/ssa"

)

type continuation int

const (
	kNext continuation = iota
	kReturn
	kJump
)

// Mode is a bitmask of options affecting the interpreter.
type Mode uint

const (
	DisableRecover Mode = 1 << iota // Disable recover() in target programs; show interpreter crash instead.
	EnableTracing                   // Print a trace of all instructions as they are interpreted.
)

type methodSet map[string]*ssa.Function

// State shared between all interpreted goroutines.
type interpreter struct {
	osArgs             []value                // the value of os.Args
	prog               *ssa.Program           // the SSA program
	globals            map[*ssa.Global]*value // addresses of global variables (immutable)
	mode               Mode                   // interpreter options
	reflectPackage     *ssa.Package           // the fake reflect package
	errorMethods       methodSet              // the method set of reflect.error, which implements the error interface.
	rtypeMethods       methodSet              // the method set of rtype, which implements the reflect.Type interface.
	runtimeErrorString types.Type             // the runtime.errorString type
	sizes              types.Sizes            // the effective type-sizing function
	goroutines         int32                  // atomically updated
	panicNilError      types.Type             // *runtime.PanicNilError's element type (may be nil)
	px                 *pathCtx               // gosx: symbolic state of the current path
	sched              *sched                 // gosx: baton scheduler of the current path
	mutable            []*ssa.Global          // gosx: globals that get a private copy per path
	overlay            map[*ssa.Global]*value // gosx: this path's copies of the mutable globals
	syncMaps           map[*value]*syncMapState
	syncStates         map[*value]*syncState
}

type deferred struct {
	fn    value
	args  []value
	instr *ssa.Defer
	tail  *deferred
}

type frame struct {
	i                *interpreter
	caller           *frame
	fn               *ssa.Function
	block, prevBlock *ssa.BasicBlock
	env              map[ssa.Value]value // dynamic values of SSA variables
	locals           []value
	defers           *deferred
	result           value
	panicking        bool
	panic            interface{}
	phitemps         []value // temporaries for parallel phi assignment
}

func (fr *frame) get(key ssa.Value) value {
	switch key := key.(type) {
	case nil:
		// Hack; simplifies handling of optional attributes
		// such as ssa.Slice.{Low,High}.
		return nil
	case *ssa.Function, *ssa.Builtin:
		return key
	case *ssa.Const:
		return constValue(key)
	case *ssa.Global:
		if r, ok := fr.i.overlay[key]; ok {
			return r
		}
		if r, ok := fr.i.globals[key]; ok {
			return r
		}
	}
	if r, ok := fr.env[key]; ok {
		return r
	}
	panic(fmt.Sprintf("get: no value for %T: %v", key, key.Name()))
}

// runDefer runs a deferred call d.
// It always returns normally, but may set or clear fr.panic.
func (fr *frame) runDefer(d *deferred) {
	if fr.i.mode&EnableTracing != 0 {
		fmt.Fprintf(os.Stderr, "%s: invoking deferred function call\n",
			fr.i.prog.Fset.Position(d.instr.Pos()))
	}
	var ok bool
	defer func() {
		if !ok {
			// Deferred call created a new state of panic.
			fr.panicking = true
			fr.panic = recover()
		}
	}()
	call(fr.i, fr, d.instr.Pos(), d.fn, d.args)
	ok = true
}

// runDefers executes fr's deferred function calls in LIFO order.
//
// On entry, fr.panicking indicates a state of panic; if
// true, fr.panic contains the panic value.
//
// On completion, if a deferred call started a panic, or if no
// deferred call recovered from a previous state of panic, then
// runDefers itself panics after the last deferred call has run.
//
// If there was no initial state of panic, or it was recovered from,
// runDefers returns normally.
func (fr *frame) runDefers() {
	for d := fr.defers; d != nil; d = d.tail {
		fr.runDefer(d)
	}
	fr.defers = nil
	if fr.panicking {
		panic(fr.panic) // new panic, or still panicking
	}
}

// lookupMethod returns the method set for type typ, which may be one
// of the interpreter's fake types.
func lookupMethod(i *interpreter, typ types.Type, meth *types.Func) *ssa.Function {
	switch typ {
	case rtypeType:
		return i.rtypeMethods[meth.Id()]
	case errorType:
		return i.errorMethods[meth.Id()]
	}
	return i.prog.LookupMethod(typ, meth.Pkg(), meth.Name())
}

// visitInstr interprets a single ssa.Instruction within the activation
// record frame.  It returns a continuation value indicating where to
// read the next instruction from.
func visitInstr(fr *frame, instr ssa.Instruction) continuation {
	switch instr := instr.(type) {
	case *ssa.DebugRef:
		// no-op

	case *ssa.UnOp:
		fr.env[instr] = unop(fr, instr, fr.get(instr.X))

	case *ssa.BinOp:
		fr.env[instr] = binop(fr.i, instr.Op, instr.X.Type(), fr.get(instr.X), fr.get(instr.Y))

	case *ssa.Call:
		fn, args := prepareCall(fr, &instr.Call)
		fr.env[instr] = call(fr.i, fr, instr.Pos(), fn, args)

	case *ssa.ChangeInterface:
		fr.env[instr] = fr.get(instr.X)

	case *ssa.ChangeType:
		fr.env[instr] = fr.get(instr.X) // (can't fail)

	case *ssa.Convert:
		fr.env[instr] = conv(fr.i, instr.Type(), instr.X.Type(), fr.get(instr.X))

	case *ssa.SliceToArrayPointer:
		fr.env[instr] = sliceToArrayPointer(instr.Type(), instr.X.Type(), fr.get(instr.X))

	case *ssa.MakeInterface:
		fr.env[instr] = iface{t: instr.X.Type(), v: fr.get(instr.X)}

	case *ssa.Extract:
		fr.env[instr] = fr.get(instr.Tuple).(tuple)[instr.Index]

	case *ssa.Slice:
		fr.env[instr] = slice(fr.i, fr.get(instr.X), fr.get(instr.Low), fr.get(instr.High), fr.get(instr.Max))

	case *ssa.Return:
		switch len(instr.Results) {
		case 0:
		case 1:
			fr.result = fr.get(instr.Results[0])
		default:
			var res []value
			for _, r := range instr.Results {
				res = append(res, fr.get(r))
			}
			fr.result = tuple(res)
		}
		fr.block = nil
		return kReturn

	case *ssa.RunDefers:
		fr.runDefers()

	case *ssa.Panic:
		panic(targetPanic{fr.get(instr.X)})

	case *ssa.Send:
		fr.i.sched.send(fr.get(instr.Chan).(*gchan), fr.get(instr.X))

	case *ssa.Store:
		addr := fr.get(instr.Addr).(*value)
		raceAccess(fr, mustDeref(instr.Addr.Type()), addr, true)
		store(mustDeref(instr.Addr.Type()), addr, fr.get(instr.Val))

	case *ssa.If:
		succ := 1
		cond := fr.get(instr.Cond)
		if c, ok := cond.(sym); ok {
			fr.i.px.curFrame = fr
			cond = fr.i.px.branch(c.t)
		}
		if cond.(bool) {
			succ = 0
		}
		fr.prevBlock, fr.block = fr.block, fr.block.Succs[succ]
		return kJump

	case *ssa.Jump:
		fr.prevBlock, fr.block = fr.block, fr.block.Succs[0]
		return kJump

	case *ssa.Defer:
		fn, args := prepareCall(fr, &instr.Call)
		defers := &fr.defers
		if into := fr.get(instr.DeferStack); into != nil {
			defers = into.(**deferred)
		}
		*defers = &deferred{
			fn:    fn,
			args:  args,
			instr: instr,
			tail:  *defers,
		}

	case *ssa.Go:
		fn, args := prepareCall(fr, &instr.Call)
		i := fr.i
		pos := instr.Pos()
		i.sched.spawn(calleeName(fn), func() { call(i, nil, pos, fn, args) })

	case *ssa.MakeChan:
		fr.i.px.nchan++
		fr.env[instr] = &gchan{id: fr.i.px.nchan, cap: int(asInt64(fr.i.conc(fr.get(instr.Size))))}

	case *ssa.Alloc:
		var addr *value
		if instr.Heap {
			// new
			addr = new(value)
			fr.env[instr] = addr
		} else {
			// local
			addr = fr.env[instr].(*value)
		}
		*addr = zero(mustDeref(instr.Type()))

	case *ssa.MakeSlice:
		slice := make([]value, asInt64(fr.i.conc(fr.get(instr.Cap))))
		tElt := instr.Type().Underlying().(*types.Slice).Elem()
		for i := range slice {
			slice[i] = zero(tElt)
		}
		fr.env[instr] = slice[:asInt64(fr.i.conc(fr.get(instr.Len)))]

	case *ssa.MakeMap:
		var reserve int64
		if instr.Reserve != nil {
			reserve = asInt64(fr.get(instr.Reserve))
		}
		if !fitsInt(reserve, fr.i.sizes) {
			panic(fmt.Sprintf("ssa.MakeMap.Reserve value %d does not fit in int", reserve))
		}
		fr.env[instr] = makeMap(instr.Type().Underlying().(*types.Map).Key(), reserve)

	case *ssa.Range:
		fr.env[instr] = rangeIter(fr.i, fr.get(instr.X), instr.X.Type())

	case *ssa.Next:
		fr.env[instr] = fr.get(instr.Iter).(iter).next()

	case *ssa.FieldAddr:
		fr.env[instr] = &(*fr.get(instr.X).(*value)).(structure)[instr.Field]

	case *ssa.Field:
		fr.env[instr] = fr.get(instr.X).(structure)[instr.Field]

	case *ssa.IndexAddr:
		x := fr.get(instr.X)
		idx := fr.i.conc(fr.get(instr.Index))
		switch x := x.(type) {
		case []value:
			fr.env[instr] = &x[asInt64(idx)]
		case *value: // *array
			fr.env[instr] = &(*x).(array)[asInt64(idx)]
		default:
			panic(fmt.Sprintf("unexpected x type in IndexAddr: %T", x))
		}

	case *ssa.Index:
		x := fr.get(instr.X)
		idx := fr.i.conc(fr.get(instr.Index))

		switch x := x.(type) {
		case array:
			fr.env[instr] = x[asInt64(idx)]
		case string:
			fr.env[instr] = x[asInt64(idx)]
		case sstr:
			fr.env[instr] = x.c[asInt64(idx)]
		default:
			panic(fmt.Sprintf("unexpected x type in Index: %T", x))
		}

	case *ssa.Lookup:
		fr.env[instr] = lookup(fr.i, instr, fr.get(instr.X), fr.get(instr.Index))

	case *ssa.MapUpdate:
		m := fr.get(instr.Map)
		key := fr.get(instr.Key)
		v := fr.get(instr.Value)
		switch m := m.(type) {
		case map[value]value:
			m[fr.i.conc(key)] = v
		case *smap:
			m.insert(fr.i, key, v)
		case *hashmap:
			m.insert(key.(hashable), v)
		default:
			panic(fmt.Sprintf("illegal map type: %T", m))
		}

	case *ssa.TypeAssert:
		fr.env[instr] = typeAssert(fr.i, instr, fr.get(instr.X).(iface))

	case *ssa.MakeClosure:
		var bindings []value
		for _, binding := range instr.Bindings {
			bindings = append(bindings, fr.get(binding))
		}
		fr.env[instr] = &closure{instr.Fn.(*ssa.Function), bindings}

	case *ssa.Phi:
		log.Fatal("unreachable") // phis are processed at block entry

	case *ssa.Select:
		fr.env[instr] = doSelect(fr, instr)

	default:
		panic(fmt.Sprintf("unexpected instruction: %T", instr))
	}

	// if val, ok := instr.(ssa.Value); ok {
	// 	fmt.Println(toString(fr.env[val])) // debugging
	// }

	return kNext
}

// prepareCall determines the function value and argument values for a
// function call in a Call, Go or Defer instruction, performing
// interface method lookup if needed.
func prepareCall(fr *frame, call *ssa.CallCommon) (fn value, args []value) {
	v := fr.get(call.Value)
	if call.Method == nil {
		// Function call.
		fn = v
	} else {
		// Interface method invocation.
		recv := v.(iface)
		if recv.t == nil {
			panic("method invoked on nil interface")
		}
		if f := lookupMethod(fr.i, recv.t, call.Method); f == nil {
			// Unreachable in well-typed programs.
			panic(fmt.Sprintf("method set for dynamic type %v does not contain %s", recv.t, call.Method))
		} else {
			fn = f
		}
		args = append(args, recv.v)
	}
	for _, arg := range call.Args {
		args = append(args, fr.get(arg))
	}
	return
}

// call interprets a call to a function (function, builtin or closure)
// fn with arguments args, returning its result.
// callpos is the position of the callsite.
func call(i *interpreter, caller *frame, callpos token.Pos, fn value, args []value) value {
	switch fn := fn.(type) {
	case *ssa.Function:
		if fn == nil {
			panic("call of nil function") // nil of func type
		}
		return callSSA(i, caller, callpos, fn, args, nil)
	case *closure:
		return callSSA(i, caller, callpos, fn.Fn, args, fn.Env)
	case *ssa.Builtin:
		return callBuiltin(caller, callpos, fn, args)
	case hostFunc:
		return fn(caller, args)
	}
	panic(fmt.Sprintf("cannot call %T", fn))
}

func loc(fset *token.FileSet, pos token.Pos) string {
	if pos == token.NoPos {
		return ""
	}
	return " at " + fset.Position(pos).String()
}

// callSSA interprets a call to function fn with arguments args,
// and lexical environment env, returning its result.
// callpos is the position of the callsite.
func callSSA(i *interpreter, caller *frame, callpos token.Pos, fn *ssa.Function, args []value, env []value) value {
	if i.mode&EnableTracing != 0 {
		fset := fn.Prog.Fset
		// TODO(adonovan): fix: loc() lies for external functions.
		fmt.Fprintf(os.Stderr, "Entering %s%s.\n", fn, loc(fset, fn.Pos()))
		suffix := ""
		if caller != nil {
			suffix = ", resuming " + caller.fn.String() + loc(fset, callpos)
		}
		defer fmt.Fprintf(os.Stderr, "Leaving %s%s.\n", fn, suffix)
	}
	fr := &frame{
		i:      i,
		caller: caller, // for panic/recover
		fn:     fn,
	}
	if fn.Parent() == nil {
		ext, known := extCache.Load(fn)
		if !known {
			name := fn.String()
			var e externalFn
			if x := externals[name]; x != nil {
				e = x
			}
			if e == nil && fn.Name() == "init" && fn.Signature.Recv() == nil && !userPkg(fn.Pkg) && fn.Pkg != nil && !InitAllow[fn.Pkg.Pkg.Path()] {
				e = func(fr *frame, args []value) value { return nil }
			}
			if e == nil && fn.Blocks == nil {
				e = func(fr *frame, args []value) value {
					panic(engineError{"no code for function: " + name})
				}
			}
			extCache.Store(fn, e)
			ext = e
		}
		if e := ext.(externalFn); e != nil && !fr.bypassExternal(args) {
			fr.caller = caller
			i.px.curFrame = fr
			return e(fr, args)
		}
	}
	if fn.Pkg != nil && userPkg(fn.Pkg) {
		i.px.funcs[fn] = true
	} else if fn.Pkg == nil {
		if o := fn.Origin(); o != nil && userPkg(o.Pkg) {
			i.px.funcs[fn] = true
		} else if m := fn.Object(); m != nil && m.Pkg() != nil && strings.HasPrefix(m.Pkg().Path(), "github.com/hattya/go.sh") {
			i.px.funcs[fn] = true
		}
	}

	// generic function body?
	if fn.TypeParams().Len() > 0 && len(fn.TypeArgs()) == 0 {
		panic("interp requires ssa.BuilderMode to include InstantiateGenerics to execute generics")
	}

	fr.env = make(map[ssa.Value]value)
	fr.block = fn.Blocks[0]
	fr.locals = make([]value, len(fn.Locals))
	for i, l := range fn.Locals {
		fr.locals[i] = zero(mustDeref(l.Type()))
		fr.env[l] = &fr.locals[i]
	}
	for i, p := range fn.Params {
		fr.env[p] = args[i]
	}
	for i, fv := range fn.FreeVars {
		fr.env[fv] = env[i]
	}
	for fr.block != nil {
		runFrame(fr)
	}
	// Destroy the locals to avoid accidental use after return.
	for i := range fn.Locals {
		fr.locals[i] = bad{}
	}
	return fr.result
}

// runFrame executes SSA instructions starting at fr.block and
// continuing until a return, a panic, or a recovered panic.
//
// After a panic, runFrame panics.
//
// After a normal return, fr.result contains the result of the call
// and fr.block is nil.
//
// A recovered panic in a function without named return parameters
// (NRPs) becomes a normal return of the zero value of the function's
// result type.
//
// After a recovered panic in a function with NRPs, fr.result is
// undefined and fr.block contains the block at which to resume
// control.
func runFrame(fr *frame) {
	defer func() {
		if fr.block == nil {
			return // normal return
		}
		if fr.i.mode&DisableRecover != 0 {
			return // let interpreter crash
		}
		r := recover()
		switch r.(type) {
		case pathAbort, engineError, deadlock, budgetExceeded:
			// engine-level unwinding: no interpreted defers
			panic(r)
		}
		if fr.i.sched.aborted {
			panic(pathAbort{})
		}
		if re, ok := r.(runtime.Error); ok {
			if _, isRt := re.(rtErr); !isRt && os.Getenv("GOSX_DEBUG_STACK") != "" {
				fmt.Fprintf(os.Stderr, "host runtime error %v in %s\n%s\n", re, fr.fn, debug.Stack())
			}
			if _, isRt := re.(rtErr); !isRt && !isTargetRuntimeError(re) {
				// a host run-time error outside the modelled operations is an engine bug
				panic(engineError{"engine runtime error: " + re.Error() + " in " + fr.fn.String() + "\n" + string(debug.Stack())})
			}
		}
		fr.panicking = true
		fr.panic = r
		fr.runDefers()
		fr.block = fr.fn.Recover
	}()

	px := fr.i.px
	for {

		nonPhis := executePhis(fr)
		for _, instr := range nonPhis {
			px.instrs++
			if px.instrs > px.budget {
				px.curFrame = fr
				panic(budgetExceeded{})
			}
			if visitInstr(fr, instr) == kReturn {
				return
			}
			// Inv: kNext (continue) or kJump (last instr)
		}
	}
}

// executePhis executes the phi-nodes at the start of the current
// block and returns the non-phi instructions.
func executePhis(fr *frame) []ssa.Instruction {
	firstNonPhi := -1
	for i, instr := range fr.block.Instrs {
		if _, ok := instr.(*ssa.Phi); !ok {
			firstNonPhi = i
			break
		}
	}
	// Inv: 0 <= firstNonPhi; every block contains a non-phi.

	nonPhis := fr.block.Instrs[firstNonPhi:]
	if firstNonPhi > 0 {
		phis := fr.block.Instrs[:firstNonPhi]
		// Execute parallel assignment of phis.
		//
		// See "the swap problem" in Briggs et al's "Practical Improvements
		// to the Construction and Destruction of SSA Form" for discussion.
		predIndex := slices.Index(fr.block.Preds, fr.prevBlock)
		fr.phitemps = fr.phitemps[:0]
		for _, phi := range phis {
			phi := phi.(*ssa.Phi)
			if fr.i.mode&EnableTracing != 0 {
				fmt.Fprintln(os.Stderr, "\t", phi.Name(), "=", phi)
			}
			fr.phitemps = append(fr.phitemps, fr.get(phi.Edges[predIndex]))
		}
		for i, phi := range phis {
			fr.env[phi.(*ssa.Phi)] = fr.phitemps[i]
		}
	}
	return nonPhis
}

// doRecover implements the recover() built-in.
func doRecover(caller *frame) value {
	// recover() must be exactly one level beneath the deferred
	// function (two levels beneath the panicking function) to
	// have any effect.  Thus we ignore both "defer recover()" and
	// "defer f() -> g() -> recover()".
	if caller.i.mode&DisableRecover == 0 &&
		caller != nil && !caller.panicking &&
		caller.caller != nil && caller.caller.panicking {
		caller.caller.panicking = false
		p := caller.caller.panic
		caller.caller.panic = nil

		// TODO(adonovan): support runtime.Goexit.
		switch p := p.(type) {
		case targetPanic:
			// The target program explicitly called panic().
			if iv, ok := p.v.(iface); ok && iv.t == nil {
				// panic(nil): Go >= 1.21 (GODEBUG panicnil=0) turns it into a
				// *runtime.PanicNilError; panicnil=1 keeps the old behaviour.
				if caller.i.px.panicNil == 0 && caller.i.panicNilError != nil {
					cell := zero(caller.i.panicNilError)
					return iface{types.NewPointer(caller.i.panicNilError), &cell}
				}
			}
			return p.v
		case runtime.Error:
			// The interpreter encountered a runtime error.
			if _, ok := p.(rtErr); !ok && !isTargetRuntimeError(p) {
				panic(engineError{"engine runtime error reached recover(): " + p.Error()})
			}
			return iface{caller.i.runtimeErrorString, strings.TrimPrefix(p.Error(), "runtime error: ")}
		case string:
			// The interpreter explicitly called panic().
			return iface{caller.i.runtimeErrorString, p}
		default:
			panic(fmt.Sprintf("unexpected panic type %T in target call to recover()", p))
		}
	}
	return iface{}
}


var extCache sync.Map // *ssa.Function -> externalFn (nil func = interpret the body)

func mustDeref(t types.Type) types.Type {
	if p, ok := t.Underlying().(*types.Pointer); ok {
		return p.Elem()
	}
	panic("mustDeref: not a pointer: " + t.String())
}

func calleeName(fn value) string {
	switch f := fn.(type) {
	case *ssa.Function:
		return f.String()
	case *closure:
		return f.Fn.String()
	}
	return "?"
}

// bypassExternal: some std functions have a host implementation for concrete
// arguments but are interpreted from their Go source when an argument is a
// symbolic string (so that the solver reasons about the real std code).
func (fr *frame) bypassExternal(args []value) bool {
	if fr.fn.Blocks == nil || fr.fn.Pkg == nil {
		return false
	}
	switch fr.fn.String() {
	case "strconv.Atoi", "strconv.ParseInt", "strconv.ParseUint":
		_, ok := args[0].(sstr)
		return ok
	case "strings.Count", "strings.Replace", "strings.EqualFold", "strings.ToLower", "bytes.Equal", "bytes.IndexByte",
		"sort.Ints", "sort.Float64s":
		// host implementations inherited from x/tools: concrete arguments only
		return anySym(args...)
	}
	return false
}
