package h

import (
	"strings"

	"github.com/hattya/go.sh/ast"
	"verifharness/nd"
)

// C08 — here-document bodies are attached to the right redirection, verbatim.
//
// A site (a command line with one or two here-document operators, possibly
// inside a compound command) is engine-enumerated; the body of each
// here-document is k symbolic runes over an alphabet that contains the
// delimiter letter, tab, newline, '$', backslash and blank, so lines equal to
// the delimiter, empty first lines, tab-indented lines, expansions and escapes
// all arise as solver-chosen cases. The oracle is a reference here-document
// reader run on the same text.

const c08Alpha = "aE\t\n$\\ "

type hsite struct {
	line   string   // the command line up to and including its newline
	ops    []string // here-document operators in order
	delims []string // delimiters after quote removal
	quoted []bool   // some part of the delimiter word was quoted
	tail   string   // text after the last delimiter line
}

var c08Sites = []hsite{
	{line: "a <<E\n", ops: []string{"<<"}, delims: []string{"E"}, quoted: []bool{false}},
	{line: "a <<-E\n", ops: []string{"<<-"}, delims: []string{"E"}, quoted: []bool{false}},
	{line: "a <<'E'\n", ops: []string{"<<"}, delims: []string{"E"}, quoted: []bool{true}},
	{line: "a <<\\E\n", ops: []string{"<<"}, delims: []string{"E"}, quoted: []bool{true}},
	{line: "a <<\"E\"\n", ops: []string{"<<"}, delims: []string{"E"}, quoted: []bool{true}},
	{line: "a <<E'F'\n", ops: []string{"<<"}, delims: []string{"EF"}, quoted: []bool{true}},
	{line: "a <<E; b <<-F\n", ops: []string{"<<", "<<-"}, delims: []string{"E", "F"}, quoted: []bool{false, false}},
	{line: "a <<E &&\n", ops: []string{"<<"}, delims: []string{"E"}, quoted: []bool{false}, tail: "b\n"},
	{line: "a <<E | # c\n", ops: []string{"<<"}, delims: []string{"E"}, quoted: []bool{false}, tail: "\nb\n"},
	{line: "a <<'E' || b <<E |\n", ops: []string{"<<", "<<"}, delims: []string{"E", "E"}, quoted: []bool{true, false}, tail: "c\n"},
	{line: "case x in a) b <<E;;\n", ops: []string{"<<"}, delims: []string{"E"}, quoted: []bool{false}, tail: "esac\n"},
	{line: "a <<-E <<E\n", ops: []string{"<<-", "<<"}, delims: []string{"E", "E"}, quoted: []bool{false, false}},
	{line: "a <<-E; b <<'E'\n", ops: []string{"<<-", "<<"}, delims: []string{"E", "E"}, quoted: []bool{false, true}},
	{line: "a <<E <<'F'\n", ops: []string{"<<", "<<"}, delims: []string{"E", "F"}, quoted: []bool{false, true}},
	{line: "a <<'E' <<F\n", ops: []string{"<<", "<<"}, delims: []string{"E", "F"}, quoted: []bool{true, false}},
	{line: "a <<\\E; b <<F\n", ops: []string{"<<", "<<"}, delims: []string{"E", "F"}, quoted: []bool{true, false}},
	{line: "a <<E | b <<F\n", ops: []string{"<<", "<<"}, delims: []string{"E", "F"}, quoted: []bool{false, false}},
	{line: "if a <<E\n", ops: []string{"<<"}, delims: []string{"E"}, quoted: []bool{false}, tail: "then b; fi\n"},
	{line: "{ a <<E\n", ops: []string{"<<"}, delims: []string{"E"}, quoted: []bool{false}, tail: "}\n"},
	{line: "while a; do b <<E; done\n", ops: []string{"<<"}, delims: []string{"E"}, quoted: []bool{false}},
	{line: "x=$(a <<E\n", ops: []string{"<<"}, delims: []string{"E"}, quoted: []bool{false}, tail: ")\n"},
	{line: "(a <<E) && b <<F\n", ops: []string{"<<", "<<"}, delims: []string{"E", "F"}, quoted: []bool{false, false}},
}

// refHeredoc reads one body from text: the lines up to the delimiter line.
// It returns the body, the delimiter line as written, the rest, and ok=false
// when the text ends before a delimiter line.
func refHeredoc(text []rune, delim string, stripTabs bool) (body, dline, rest []rune, ok bool) {
	i := 0
	for i <= len(text) {
		// the line starting at i
		j := i
		for j < len(text) && text[j] != '\n' {
			j++
		}
		line := text[i:j]
		cmp := line
		if stripTabs {
			for len(cmp) > 0 && cmp[0] == '\t' {
				cmp = cmp[1:]
			}
		}
		if string(cmp) == delim {
			end := j
			if end < len(text) {
				end++ // the newline of the delimiter line
			}
			return text[:i], line, text[end:], true
		}
		if j >= len(text) {
			return nil, nil, nil, false
		}
		i = j + 1
	}
	return nil, nil, nil, false
}

func collectHeredocs(cmds []ast.Command) []*ast.Redir {
	var rs []*ast.Redir
	WalkNodes(cmds, func(n ast.Node, kind string) {
		if r, ok := n.(*ast.Redir); ok && (r.Op == "<<" || r.Op == "<<-") {
			rs = append(rs, r)
		}
	})
	return rs
}

func wordText(w ast.Word) string {
	s, _ := PrintWord(w)
	return s
}

func hasExpansion(w ast.Word) bool {
	for _, p := range w {
		if _, ok := p.(*ast.Lit); !ok {
			return true
		}
	}
	return false
}

func c08(k int) {
	site := c08Sites[nd.Choice(len(c08Sites))]
	var src []rune
	src = append(src, []rune(site.line)...)
	var bodies [][]rune
	for range site.ops {
		b := make([]rune, k)
		for i := range b {
			b[i] = nd.RuneIn(c08Alpha)
		}
		bodies = append(bodies, b)
	}
	// text after the command line: body, newline, delimiter line, ... tail
	var after []rune
	omitLast := site.tail == "" && nd.Choice(2) == 1 // the last delimiter line is missing
	for i, b := range bodies {
		if k > 0 {
			after = append(after, b...)
			after = append(after, '\n')
		}
		if omitLast && i == len(bodies)-1 {
			break
		}
		after = append(after, []rune(site.delims[i])...)
		after = append(after, '\n')
	}
	after = append(after, []rune(site.tail)...)
	for i := 1; i < len(after); i++ {
		nd.Assume(!nd.And(after[i-1] == '\\', after[i] == '\n')) // no line continuation inside a body
	}
	src = append(src, after...)
	nd.Observe(string(src))

	// reference: read the bodies in operator order
	rest := after
	var wantBody, wantDelim []string
	okAll := true
	for i := range site.ops {
		body, dline, r, ok := refHeredoc(rest, site.delims[i], site.ops[i] == "<<-")
		if !ok {
			okAll = false
			break
		}
		wantBody = append(wantBody, string(body))
		wantDelim = append(wantDelim, string(dline))
		rest = r
	}
	cmds, _, err := parseStream(src)
	if !okAll {
		nd.Cover("unterminated")
		nd.Assert(err != nil, "a here-document without its delimiter line is an error")
		return
	}
	if err != nil {
		// the remaining text (what the reference left after the bodies) may be ill-formed
		nd.Cover("rest-rejected")
		return
	}
	nd.Cover("accepted")
	rs := collectHeredocs(cmds)
	nd.Assert(len(rs) >= len(site.ops), "every here-document operator has its redirection")
	if len(rs) < len(site.ops) {
		return
	}
	for i := range site.ops {
		r := rs[i]
		nd.Assert(r.Op == site.ops[i], "here-documents are attached in operator order")
		nd.Assert(wordText(r.Heredoc) == wantBody[i], "the body is the lines up to the delimiter line, byte for byte")
		nd.Assert(strings.TrimLeft(wordText(r.Delim), "\t") == site.delims[i], "the delimiter line is recorded")
		if site.quoted[i] {
			nd.Assert(!hasExpansion(r.Heredoc), "a quoted delimiter makes the body literal")
		} else if strings.Contains(wantBody[i], "$a") && !strings.Contains(wantBody[i], "\\$a") {
			nd.Cover("expansion")
			nd.Assert(hasExpansion(r.Heredoc), "an unquoted delimiter makes the body subject to expansion")
		}
	}
}

// C08_K0: empty here-documents (the delimiter line follows the command line).
func C08_K0() { c08(0) }
func C08_K1() { c08(1) }
func C08_K2() { c08(2) }
func C08_K3() { c08(3) }
func C08_K4() { c08(4) }
