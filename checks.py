"""Registry of checks: which gosx harnesses decide which property, per tier.

Every entry of a tier list is one harness run:
  harness   exported niladic function of verifharness/h
  panicnil  list of modelled GODEBUG panicnil values (default [1])
  cover     nd.Cover labels that at least one path must reach (vacuity guard)
  bounds    human-readable statement of the bound (goes into evidence)
  budget / max_paths / timeout / samples / per_key: engine flags
"""

ASSUMPTIONS = [
    "GOARCH=amd64 (int = 64 bit); go/ssa v0.29.0 translation of /repo's current working tree is faithful",
    "instruction semantics of the adapted x/tools go/ssa/interp plus gosx's symbolic layer (validated by native replay of sampled passing paths and of every counterexample)",
    "symbolic runes range over D = ASCII ∪ {é 世 𝒳 ٣ U+00A0 U+0085 U+3000 × U+FFFD U+10FFFF}; symbolic bytes over ASCII; other code points are outside the claim",
    "std boundary: strings.Builder/strings.*/utf8.*/unicode.Is*/strconv/sync/atomic are engine models (DESIGN §2.5); bufio, strings.Reader, bytes.Reader, errors are interpreted from std source",
    "goroutines run under a deterministic baton scheduler (run until blocked, FIFO) unless the harness enables schedule mode",
    "z3 4.8.12 verdicts; any unknown / (error line makes the run inconclusive (exit 2), never a pass",
]

D = "runes over D (ASCII + 10 non-ASCII representatives)"

CHECKS = {
    "C01": {
        "quick": [
            dict(harness="C01_F1", panicnil=[0, 1], cover=["accepted", "rejected"], bounds="all inputs of exactly 1 rune over D"),
            dict(harness="C01_F2", panicnil=[0, 1], cover=["accepted", "rejected"], bounds="all inputs of exactly 2 " + D),
            dict(harness="C01_F3", panicnil=[0, 1], cover=["accepted", "rejected"], bounds="all inputs of exactly 3 " + D),
            dict(harness="C01_T1", panicnil=[1], cover=["accepted", "rejected"], bounds="43 templates x every position replaced by one symbolic rune over D"),
            dict(harness="C01_Sources", bounds="43 concrete templates through string/[]byte/bufio.Reader/io.Reader"),
        ],
        "thorough": [
            dict(harness="C01_F1", panicnil=[0, 1], cover=["accepted", "rejected"]),
            dict(harness="C01_F2", panicnil=[0, 1], cover=["accepted", "rejected"]),
            dict(harness="C01_F3", panicnil=[0, 1], cover=["accepted", "rejected"]),
            dict(harness="C01_F4", panicnil=[1], cover=["accepted", "rejected"], bounds="all inputs of exactly 4 " + D),
            dict(harness="C01_T1", panicnil=[0, 1], cover=["accepted", "rejected"]),
            dict(harness="C01_T2", panicnil=[1], bounds="43 templates x every adjacent pair replaced by 2 symbolic ASCII runes"),
            dict(harness="C01_Ins1", panicnil=[1], bounds="43 templates x one symbolic rune inserted at every position"),
            dict(harness="C01_Alias", panicnil=[1], cover=["accepted"], bounds="alias table {a: 2 free bytes[+blank], b: 1 free byte[+blank]} x 2 free runes of {a b blank ; newline} + ' a b'"),
            dict(harness="C01_Sources"),
        ],
    },
}

BOUNDED = ("holds for every input inside the stated bounds (the solver decides each data-dependent branch and assertion for all values; "
           "paths are enumerated exhaustively by decision-prefix re-execution); says nothing beyond the bounds")

META = {
    "C01": dict(text="Totality of ParseCommands within bounds: every feasible path of the real lexer/parser SSA over N free runes (N<=3 quick, 4 thorough), "
                     "over every template with symbolic holes, with symbolic alias tables, under panicnil 0 and 1, ends without caller panic, background-goroutine death, deadlock or budget overrun. " + BOUNDED,
                note="inputs longer than the bounds, code points outside D and the std decoders behind string/[]byte/io.Reader sources (smoke-tested concretely) are outside the claim; goroutines run under the deterministic baton schedule plus a drain phase after return"),
}

NOT_APPLICABLE = {
    "C%02d" % i: "check not built yet in this session (engine reaches the code; harness pending)" for i in range(1, 21)
}
