package h

import (
	"verifharness/nd"
)

// Harnesses over generated derivations for the properties whose quantifier
// names the grammar generator (C04, C07, C09).

// C04_G12 / C04_G2: positions on generated derivations (single- and
// multi-line layout, nested substitutions, a multi-byte leaf character).
func C04_G12() { c04(genProgram(1, 2)) }
func C04_G2()  { c04(genProgram(2, 2)) }

// gapsOutsideQuotes returns the indices of the blanks of t that stand between
// two tokens (outside single and double quotes and not escaped).
func gapsOutsideQuotes(t []rune) []int {
	var gaps []int
	inS, inD := false, false
	for i := 0; i < len(t); i++ {
		switch c := t[i]; {
		case inS:
			if c == '\'' {
				inS = false
			}
		case c == '\\':
			i++
		case inD:
			if c == '"' {
				inD = false
			}
		case c == '\'':
			inS = true
		case c == '"':
			inD = true
		case c == ' ':
			gaps = append(gaps, i)
		}
	}
	return gaps
}

// C09_Gen: a generated single-line derivation x every blank between two
// tokens x {extra blank or tab (symbolic), tab for the blank, backslash-newline,
// backslash-newline followed by a blank}; the untransformed parse is the oracle.
func c09Gen(d, budget int) {
	g := &gen{budget: budget}
	g.leaf = string(nd.RuneIn("a9é"))
	g.name = "v"
	text, _ := g.seq(d, false)
	base := []rune(text)
	gaps := gapsOutsideQuotes(base)
	if len(gaps) == 0 {
		nd.Assume(false)
	}
	at := gaps[nd.Choice(len(gaps))]
	var out []rune
	out = append(out, base[:at]...)
	switch nd.Choice(4) {
	case 0:
		out = append(out, ' ', nd.RuneIn(" \t"))
		nd.Cover("extra-blank")
	case 1:
		out = append(out, '\t')
	case 2:
		out = append(out, ' ', '\\', '\n')
		nd.Cover("continuation")
	case 3:
		out = append(out, '\\', '\n', nd.RuneIn(" \t"))
	}
	out = append(out, base[at+1:]...)
	nd.Observe(string(out))
	cmds0, comm0, err0 := parseStream(base)
	if g.arithIn {
		nd.Assume(false) // KF-C02-arith-in-parentheses
	}
	nd.Assert(err0 == nil, "the generated derivation parses")
	if err0 != nil {
		return
	}
	cmds1, comm1, err1 := parseStream(out)
	nd.Assert(err1 == nil, "layout changes do not turn an accepted program into a rejected one")
	if err1 != nil {
		return
	}
	nd.Assert(SkelEq(cmds1) == SkelEq(cmds0), "layout changes leave the parsed program unchanged")
	nd.Assert(len(comm1) == len(comm0), "no comment appears or disappears")
}

func C09_Gen11() { c09Gen(1, 1) }
func C09_Gen12() { c09Gen(1, 2) }
func C09_Gen22() { c09Gen(2, 2) }

// C07_Ref_Gen: two generated commands (single- or multi-line layout) in one
// stream, cut by the recogniser.
func c07RefGen(b1, b2 int) {
	g := &gen{multiline: nd.Choice(2) == 1, budget: b1}
	g.leaf = string(nd.RuneIn("a9é"))
	g.name = "v"
	t1, _ := g.seq(1, false)
	g2 := &gen{multiline: nd.Choice(2) == 1, budget: b2, leaf: "b", name: "w"}
	t2, _ := g2.seq(1, false)
	if g.arithIn || g2.arithIn {
		nd.Assume(false)
	}
	c07Stream([]rune(t1 + "\n" + t2 + "\n"))
}

func C07_Ref_Gen1() { c07RefGen(1, 1) }
func C07_Ref_Gen2() { c07RefGen(2, 1) }
