package interp

// gosx: hash-consed SMT terms (Bool and fixed-width bit-vectors), constant
// folding, concrete evaluation under a model, SMT-LIB2 printing.

import (
	"fmt"
	"strings"
)

type termOp uint8

const (
	opConst termOp = iota
	opVar
	opNot
	opAnd
	opOr
	opEq
	opIte
	opNeg
	opBvNot
	opAdd
	opSub
	opMul
	opUDiv
	opSDiv
	opURem
	opSRem
	opBvAnd
	opBvOr
	opBvXor
	opShl
	opLShr
	opAShr
	opULt
	opULe
	opSLt
	opSLe
	opExtract // low w bits of a
	opZExt
	opSExt
)

var opNames = [...]string{
	opNot: "not", opAnd: "and", opOr: "or", opEq: "=", opIte: "ite",
	opNeg: "bvneg", opBvNot: "bvnot", opAdd: "bvadd", opSub: "bvsub", opMul: "bvmul",
	opUDiv: "bvudiv", opSDiv: "bvsdiv", opURem: "bvurem", opSRem: "bvsrem",
	opBvAnd: "bvand", opBvOr: "bvor", opBvXor: "bvxor", opShl: "bvshl", opLShr: "bvlshr", opAShr: "bvashr",
	opULt: "bvult", opULe: "bvule", opSLt: "bvslt", opSLe: "bvsle",
}

// term is an immutable node. w == 0 means Bool, otherwise a bit-vector of w bits.
type term struct {
	op      termOp
	w       uint8
	a, b, c *term
	k       uint64 // const value / var index
	id      int32
	// evaluation cache
	evStamp int32
	ev      uint64
	// solver definition stamp (see solver.define)
	defStamp int32
	// variables occurring in the term: bit i for variable i < 63, bit 63 = "some variable >= 63"
	vmask   uint64
	vmaskOK bool
}

// varMask returns the set of variables t depends on.
func (t *term) varMask() uint64 {
	if t.vmaskOK {
		return t.vmask
	}
	var m uint64
	switch t.op {
	case opConst:
	case opVar:
		if t.k < 63 {
			m = 1 << t.k
		} else {
			m = 1 << 63
		}
	default:
		for _, x := range []*term{t.a, t.b, t.c} {
			if x != nil {
				m |= x.varMask()
			}
		}
	}
	t.vmask, t.vmaskOK = m, true
	return m
}

type termKey struct {
	op      termOp
	w       uint8
	a, b, c int32
	k       uint64
}

// termTable hash-conses the terms of one path.
type termTable struct {
	m     map[termKey]*term
	n     int32
	tt    *term
	ff    *term
	stamp int32
	vars  []*term
}

func newTermTable() *termTable {
	tb := &termTable{m: make(map[termKey]*term, 256), stamp: 1}
	tb.tt = tb.mk(opConst, 0, nil, nil, nil, 1)
	tb.ff = tb.mk(opConst, 0, nil, nil, nil, 0)
	return tb
}

func tid(t *term) int32 {
	if t == nil {
		return -1
	}
	return t.id
}

func (tb *termTable) mk(op termOp, w uint8, a, b, c *term, k uint64) *term {
	key := termKey{op, w, tid(a), tid(b), tid(c), k}
	if t, ok := tb.m[key]; ok {
		return t
	}
	t := &term{op: op, w: w, a: a, b: b, c: c, k: k, id: tb.n}
	tb.n++
	tb.m[key] = t
	return t
}

func mask(w uint8) uint64 {
	if w >= 64 {
		return ^uint64(0)
	}
	return (uint64(1) << w) - 1
}

func sext64(x uint64, w uint8) int64 {
	if w >= 64 {
		return int64(x)
	}
	sh := 64 - uint(w)
	return int64(x<<sh) >> sh
}

func (tb *termTable) bv(x uint64, w uint8) *term {
	return tb.mk(opConst, w, nil, nil, nil, x&mask(w))
}

func (tb *termTable) boolc(b bool) *term {
	if b {
		return tb.tt
	}
	return tb.ff
}

func (tb *termTable) newVar(w uint8) *term {
	t := tb.mk(opVar, w, nil, nil, nil, uint64(len(tb.vars)))
	tb.vars = append(tb.vars, t)
	return t
}

func (t *term) isConst() bool { return t.op == opConst }
func (t *term) isTrue() bool  { return t.op == opConst && t.w == 0 && t.k == 1 }
func (t *term) isFalse() bool { return t.op == opConst && t.w == 0 && t.k == 0 }

func evalOp(op termOp, w uint8, a, b, c uint64, aw uint8) uint64 {
	m := mask(w)
	switch op {
	case opNot:
		return a ^ 1
	case opAnd:
		return a & b
	case opOr:
		return a | b
	case opEq:
		if a == b {
			return 1
		}
		return 0
	case opIte:
		if a != 0 {
			return b
		}
		return c
	case opNeg:
		return (-a) & m
	case opBvNot:
		return (^a) & m
	case opAdd:
		return (a + b) & m
	case opSub:
		return (a - b) & m
	case opMul:
		return (a * b) & m
	case opUDiv:
		if b == 0 {
			return m
		}
		return a / b
	case opURem:
		if b == 0 {
			return a
		}
		return a % b
	case opSDiv:
		sa, sb := sext64(a, w), sext64(b, w)
		if sb == 0 {
			if sa < 0 {
				return 1
			}
			return m
		}
		if sb == -1 {
			return uint64(-sa) & m
		}
		return uint64(sa/sb) & m
	case opSRem:
		sa, sb := sext64(a, w), sext64(b, w)
		if sb == 0 {
			return a
		}
		if sb == -1 {
			return 0
		}
		return uint64(sa%sb) & m
	case opBvAnd:
		return a & b
	case opBvOr:
		return a | b
	case opBvXor:
		return a ^ b
	case opShl:
		if b >= uint64(w) {
			return 0
		}
		return (a << b) & m
	case opLShr:
		if b >= uint64(w) {
			return 0
		}
		return a >> b
	case opAShr:
		sa := sext64(a, w)
		if b >= uint64(w) {
			b = uint64(w) - 1
		}
		return uint64(sa>>b) & m
	case opULt:
		if a < b {
			return 1
		}
		return 0
	case opULe:
		if a <= b {
			return 1
		}
		return 0
	case opSLt:
		if sext64(a, aw) < sext64(b, aw) {
			return 1
		}
		return 0
	case opSLe:
		if sext64(a, aw) <= sext64(b, aw) {
			return 1
		}
		return 0
	case opExtract:
		return a & m
	case opZExt:
		return a
	case opSExt:
		return uint64(sext64(a, aw)) & m
	}
	panic("evalOp")
}

// app builds (op a b c) with folding and light simplification.
func (tb *termTable) app(op termOp, w uint8, a, b, c *term) *term {
	// full constant folding
	if a != nil && a.isConst() && (b == nil || b.isConst()) && (c == nil || c.isConst()) {
		var bv, cv uint64
		if b != nil {
			bv = b.k
		}
		if c != nil {
			cv = c.k
		}
		return tb.mk(opConst, w, nil, nil, nil, evalOp(op, w, a.k, bv, cv, a.w)&mask(wOr1(w)))
	}
	switch op {
	case opURem, opSRem:
		// 0 rem x = 0 for every x (SMT-LIB: bvurem s 0 = s), which spares the
		// solver a 64-bit remainder it is slow on
		if a.isConst() && a.k == 0 {
			return a
		}
	case opNot:
		if a.op == opNot {
			return a.a
		}
	case opAnd:
		if a.isFalse() || b.isFalse() {
			return tb.ff
		}
		if a.isTrue() {
			return b
		}
		if b.isTrue() {
			return a
		}
		if a == b {
			return a
		}
	case opOr:
		if a.isTrue() || b.isTrue() {
			return tb.tt
		}
		if a.isFalse() {
			return b
		}
		if b.isFalse() {
			return a
		}
		if a == b {
			return a
		}
	case opEq:
		if a == b {
			return tb.tt
		}
		if a.w == 0 {
			if b.isTrue() {
				return a
			}
			if a.isTrue() {
				return b
			}
			if b.isFalse() {
				return tb.app(opNot, 0, a, nil, nil)
			}
			if a.isFalse() {
				return tb.app(opNot, 0, b, nil, nil)
			}
		}
		// canonical order
		if a.id > b.id {
			a, b = b, a
		}
	case opIte:
		if a.isTrue() {
			return b
		}
		if a.isFalse() {
			return c
		}
		if b == c {
			return b
		}
	case opULe, opSLe:
		if a == b {
			return tb.tt
		}
	case opULt, opSLt:
		if a == b {
			return tb.ff
		}
	case opSub, opBvXor:
		if a == b {
			return tb.bv(0, w)
		}
	case opExtract:
		if a.w == w {
			return a
		}
		if (a.op == opZExt || a.op == opSExt) && a.a.w >= w {
			return tb.app(opExtract, w, a.a, nil, nil)
		}
	case opZExt, opSExt:
		if a.w == w {
			return a
		}
	}
	return tb.mk(op, w, a, b, c, 0)
}

func wOr1(w uint8) uint8 {
	if w == 0 {
		return 1
	}
	return w
}

func (tb *termTable) not(a *term) *term    { return tb.app(opNot, 0, a, nil, nil) }
func (tb *termTable) and(a, b *term) *term { return tb.app(opAnd, 0, a, b, nil) }
func (tb *termTable) or(a, b *term) *term  { return tb.app(opOr, 0, a, b, nil) }
func (tb *termTable) eq(a, b *term) *term  { return tb.app(opEq, 0, a, b, nil) }
func (tb *termTable) ite(c, a, b *term) *term {
	return tb.app(opIte, a.w, c, a, b)
}

// eval computes the value of t under model (indexed by variable number;
// missing entries are 0).
func (tb *termTable) eval(t *term, model []uint64) uint64 {
	if t.op == opConst {
		return t.k
	}
	if t.evStamp == tb.stamp {
		return t.ev
	}
	var r uint64
	switch t.op {
	case opVar:
		if int(t.k) < len(model) {
			r = model[t.k] & mask(wOr1(t.w))
		}
	case opIte:
		if tb.eval(t.a, model) != 0 {
			r = tb.eval(t.b, model)
		} else {
			r = tb.eval(t.c, model)
		}
	default:
		var bv uint64
		av := tb.eval(t.a, model)
		if t.b != nil {
			bv = tb.eval(t.b, model)
		}
		r = evalOp(t.op, t.w, av, bv, 0, t.a.w) & mask(wOr1(t.w))
	}
	t.evStamp = tb.stamp
	t.ev = r
	return r
}

// newModel invalidates the evaluation cache.
func (tb *termTable) newModel() { tb.stamp++ }

func sortOf(w uint8) string {
	if w == 0 {
		return "Bool"
	}
	return fmt.Sprintf("(_ BitVec %d)", w)
}

func (t *term) name() string {
	switch t.op {
	case opConst:
		if t.w == 0 {
			if t.k == 1 {
				return "true"
			}
			return "false"
		}
		return fmt.Sprintf("(_ bv%d %d)", t.k, t.w)
	case opVar:
		return fmt.Sprintf("v%d", t.k)
	}
	return fmt.Sprintf("t%d", t.id)
}

// body prints the defining expression of a non-leaf term, referring to children by name.
func (t *term) body() string {
	var b strings.Builder
	b.WriteByte('(')
	switch t.op {
	case opExtract:
		fmt.Fprintf(&b, "(_ extract %d 0)", t.w-1)
	case opZExt:
		fmt.Fprintf(&b, "(_ zero_extend %d)", t.w-t.a.w)
	case opSExt:
		fmt.Fprintf(&b, "(_ sign_extend %d)", t.w-t.a.w)
	default:
		b.WriteString(opNames[t.op])
	}
	for _, x := range []*term{t.a, t.b, t.c} {
		if x != nil {
			b.WriteByte(' ')
			b.WriteString(x.name())
		}
	}
	b.WriteByte(')')
	return b.String()
}

// String renders the full expression (debugging / evidence samples).
func (t *term) String() string {
	if t.op == opConst || t.op == opVar {
		return t.name()
	}
	var b strings.Builder
	b.WriteByte('(')
	switch t.op {
	case opExtract:
		fmt.Fprintf(&b, "(_ extract %d 0)", t.w-1)
	case opZExt:
		fmt.Fprintf(&b, "(_ zero_extend %d)", t.w-t.a.w)
	case opSExt:
		fmt.Fprintf(&b, "(_ sign_extend %d)", t.w-t.a.w)
	default:
		b.WriteString(opNames[t.op])
	}
	for _, x := range []*term{t.a, t.b, t.c} {
		if x != nil {
			b.WriteByte(' ')
			b.WriteString(x.String())
		}
	}
	b.WriteByte(')')
	return b.String()
}
