package interp

// gosx: baton scheduler and engine-owned channels, mutexes.
//
// Interpreted goroutines are host goroutines, but exactly one of them holds
// the baton at any time; control moves only at scheduling points (channel
// operations, mutex operations, goroutine start/exit, explicit yields).
// The default policy is deterministic: the running goroutine keeps the baton
// until it blocks or exits, then the first runnable goroutine (FIFO) gets it.
// In schedule mode the choice of the next goroutine at every scheduling point
// is a decision of the explorer (pathCtx.choice).

import (
	"fmt"
	"go/types"
	"sync"

	"golang.org/x/tools/go/ssa"
)

type G struct {
	id      int
	wake    chan struct{}
	main    bool
	exited  bool
	blocked string // what it is parked on ("" = runnable or running)
	name    string // function it was started with
	created int    // number of scheduling steps before creation
	vc      vclock // happens-before vector clock (race monitor)
	wakeVC  vclock // clock to join when this goroutine resumes from a rendezvous
}

type sched struct {
	px       *pathCtx
	cur      *G
	all      []*G
	runq     []*G
	live     int // non-main goroutines started and not exited
	Switches int
	aborted  bool
	wg       sync.WaitGroup
	mainG    *G
	mutexq   map[*value][]*G
	// schedule mode: number of preemptive context switches still allowed
	schedMode  bool
	preemptBud int
	// observers
	onSwitch func(from, to *G)
	race     *raceMon
}

type deadlock struct{ msg string }

func newSched(px *pathCtx) *sched {
	s := &sched{px: px, mutexq: map[*value][]*G{}}
	s.mainG = &G{id: 0, wake: make(chan struct{}, 1), main: true, name: "harness", vc: vclock{1}}
	s.cur = s.mainG
	s.all = []*G{s.mainG}
	return s
}

func (s *sched) ready(g *G) {
	g.blocked = ""
	s.runq = append(s.runq, g)
}

// pickNext removes and returns the next goroutine to run.
func (s *sched) pickNext() *G {
	if len(s.runq) == 0 {
		return nil
	}
	k := 0
	if s.schedMode && len(s.runq) > 1 {
		k = s.px.choice(len(s.runq), "sched")
	}
	g := s.runq[k]
	s.runq = append(s.runq[:k:k], s.runq[k+1:]...)
	return g
}

// park blocks the current goroutine (already registered in some wait queue)
// until it is made runnable again and receives the baton.
func (s *sched) park(why string) {
	me := s.cur
	me.blocked = why
	s.handOff()
	<-me.wake
	if s.aborted {
		panic(pathAbort{})
	}
	s.cur = me
	if me.wakeVC != nil {
		me.vc.join(me.wakeVC)
		me.wakeVC = nil
	}
}

// handOff gives the baton to the next runnable goroutine. If none exists the
// path is stuck: the harness goroutine is woken (with aborted set) to report.
func (s *sched) handOff() {
	next := s.pickNext()
	if next == nil {
		s.stuck()
		return
	}
	s.Switches++
	next.wake <- struct{}{}
}

// stuck: nobody can run.
func (s *sched) stuck() {
	if s.mainG.exited {
		return
	}
	desc := ""
	for _, g := range s.all {
		if !g.exited {
			desc += fmt.Sprintf(" g%d(%s):%s", g.id, g.name, g.blocked)
		}
	}
	s.px.stuckMsg = "blocks forever: no runnable goroutine;" + desc
	s.aborted = true
	if s.cur != s.mainG || s.mainG.blocked != "" {
		// main is parked (or we are a background goroutine): wake it
		select {
		case s.mainG.wake <- struct{}{}:
		default:
		}
	}
	if s.cur == s.mainG {
		panic(deadlock{s.px.stuckMsg})
	}
}

// yield is a voluntary scheduling point: in schedule mode the current
// goroutine may be preempted here.
func (s *sched) yield() {
	if !s.schedMode || len(s.runq) == 0 || s.preemptBud <= 0 {
		return
	}
	// choice 0 = keep running, k>0 = switch to runq[k-1]
	k := s.px.choice(len(s.runq)+1, "preempt")
	if k == 0 {
		return
	}
	s.preemptBud--
	me := s.cur
	next := s.runq[k-1]
	s.runq = append(s.runq[:k-1:k-1], s.runq[k:]...)
	s.runq = append(s.runq, me)
	s.Switches++
	next.wake <- struct{}{}
	<-me.wake
	if s.aborted {
		panic(pathAbort{})
	}
	s.cur = me
}

func (s *sched) spawn(name string, f func()) {
	g := &G{id: len(s.all), wake: make(chan struct{}, 1), name: name, created: s.Switches}
	g.vc = s.cur.vc.copy()
	g.vc.set(g.id, 1)
	s.cur.tick()
	s.all = append(s.all, g)
	s.live++
	s.ready(g)
	s.wg.Add(1)
	go func() {
		defer s.wg.Done()
		<-g.wake
		if s.aborted {
			return
		}
		s.cur = g
		defer func() {
			r := recover()
			g.exited = true
			if _, ok := r.(pathAbort); ok || s.aborted {
				return
			}
			switch e := r.(type) {
			case engineError:
				s.px.noteInconclusive(e.msg)
				s.abortToMain()
				return
			case budgetExceeded:
				s.px.budgetHit = true
				s.abortToMain()
				return
			}
			if r != nil {
				// an uncaught panic in a background goroutine kills the process
				s.px.bgPanic = fmt.Sprintf("process death: goroutine %d (%s) panicked: %s", g.id, g.name, panicString(r))
				s.px.bgPanicVal = r
				s.aborted = true
				select {
				case s.mainG.wake <- struct{}{}:
				default:
				}
				return
			}
			s.live--
			s.cur = nil
			if next := s.pickNext(); next != nil {
				s.Switches++
				next.wake <- struct{}{}
			} else if s.mainG.blocked != "" {
				s.stuck()
			} else if s.mainG.exited {
				// nothing left
			}
		}()
		f()
	}()
	s.yield()
}

// drain lets every other goroutine run until all of them are blocked or have
// exited; called from the harness goroutine. Returns the number still alive.
func (s *sched) drain() int {
	for len(s.runq) > 0 {
		me := s.cur
		s.ready(me)
		// move me to the back: everybody else first
		next := s.pickNextNot(me)
		if next == nil {
			// only me
			s.runq = s.runq[:0]
			break
		}
		s.Switches++
		next.wake <- struct{}{}
		<-me.wake
		if s.aborted {
			panic(pathAbort{})
		}
		s.cur = me
	}
	return s.live
}

func (s *sched) pickNextNot(me *G) *G {
	for k, g := range s.runq {
		if g != me {
			s.runq = append(s.runq[:k:k], s.runq[k+1:]...)
			return g
		}
	}
	return nil
}

// teardown aborts every parked goroutine of the path and waits for the host
// goroutines to unwind.
func (s *sched) teardown() {
	s.aborted = true
	for _, g := range s.all {
		if g.main || g.exited {
			continue
		}
		select {
		case g.wake <- struct{}{}:
		default:
		}
	}
	s.wg.Wait()
}

func (s *sched) abortToMain() {
	s.aborted = true
	select {
	case s.mainG.wake <- struct{}{}:
	default:
	}
}

func panicString(r interface{}) string {
	switch p := r.(type) {
	case targetPanic:
		return "panic: " + panicValString(p.v)
	case error:
		return p.Error()
	}
	return fmt.Sprint(r)
}

// ---------------------------------------------------------------- channels

type waiter struct {
	g    *G
	val  value  // send: value to send
	slot *value // recv: where to put it
	ok   *bool
	sel  *int // select: which case fired
	idx  int
	done *bool  // shared between the waiters of one select
	vc   vclock // the waiter's clock when it started waiting
}

type gchan struct {
	id      int
	cap     int
	bufVC   []vclock // sender clocks of the buffered values
	closeVC vclock
	buf     []value
	closed bool
	recvq  []*waiter
	sendq  []*waiter
}

func popLive(q *[]*waiter) *waiter {
	for len(*q) > 0 {
		w := (*q)[0]
		*q = (*q)[1:]
		if w.done != nil && *w.done {
			continue
		}
		return w
	}
	return nil
}

func (s *sched) fire(w *waiter) {
	if w.done != nil {
		*w.done = true
	}
	if w.sel != nil {
		*w.sel = w.idx
	}
	s.ready(w.g)
}

func (s *sched) trySend(c *gchan, v value) bool {
	if c.closed {
		panic(rtErr("send on closed channel"))
	}
	if w := popLive(&c.recvq); w != nil {
		*w.slot = v
		*w.ok = true
		// the send happens before the receive completes; for an unbuffered
		// channel the receive also happens before the send completes
		w.g.wakeVC = s.cur.vc.copy()
		if c.cap == 0 {
			s.cur.vc.join(w.vc)
		}
		s.cur.tick()
		s.fire(w)
		return true
	}
	if len(c.buf) < c.cap {
		c.buf = append(c.buf, v)
		c.bufVC = append(c.bufVC, s.cur.vc.copy())
		s.cur.tick()
		return true
	}
	return false
}

func (s *sched) tryRecv(c *gchan) (v value, ok, done bool) {
	if len(c.buf) > 0 {
		v = c.buf[0]
		c.buf = c.buf[1:]
		if len(c.bufVC) > 0 {
			s.cur.vc.join(c.bufVC[0])
			c.bufVC = c.bufVC[1:]
		}
		if w := popLive(&c.sendq); w != nil {
			c.buf = append(c.buf, w.val)
			c.bufVC = append(c.bufVC, w.vc)
			s.fire(w)
		}
		return v, true, true
	}
	if w := popLive(&c.sendq); w != nil {
		v = w.val
		s.cur.vc.join(w.vc)
		if c.cap == 0 {
			w.g.wakeVC = s.cur.vc.copy()
		}
		s.cur.tick()
		s.fire(w)
		return v, true, true
	}
	if c.closed {
		s.cur.vc.join(c.closeVC)
		return nil, false, true
	}
	return nil, false, false
}

func (s *sched) send(c *gchan, v value) {
	s.yield()
	if c == nil {
		s.park("send on nil channel")
	}
	if s.trySend(c, v) {
		return
	}
	c.sendq = append(c.sendq, &waiter{g: s.cur, val: v, vc: s.cur.vc.copy()})
	s.park(fmt.Sprintf("chan send #%d", c.id))
	if c.closed {
		panic(rtErr("send on closed channel"))
	}
}

func (s *sched) recv(c *gchan, zeroV value) (value, bool) {
	s.yield()
	if c == nil {
		s.park("receive from nil channel")
	}
	if v, ok, done := s.tryRecv(c); done {
		if !ok {
			return zeroV, false
		}
		return v, true
	}
	var slot value
	var ok bool
	c.recvq = append(c.recvq, &waiter{g: s.cur, slot: &slot, ok: &ok, vc: s.cur.vc.copy()})
	s.park(fmt.Sprintf("chan receive #%d", c.id))
	if !ok {
		return zeroV, false
	}
	return slot, true
}

func (s *sched) closeChan(c *gchan) {
	s.yield()
	if c == nil {
		panic(rtErr("close of nil channel"))
	}
	if c.closed {
		panic(rtErr("close of closed channel"))
	}
	c.closed = true
	c.closeVC = s.cur.vc.copy()
	s.cur.tick()
	for {
		w := popLive(&c.recvq)
		if w == nil {
			break
		}
		*w.ok = false
		w.g.wakeVC = c.closeVC
		s.fire(w)
	}
	for {
		w := popLive(&c.sendq)
		if w == nil {
			break
		}
		s.fire(w) // panics on wake-up
	}
}

// doSelect implements ssa.Select.
func doSelect(fr *frame, instr *ssa.Select) value {
	s := fr.i.sched
	s.yield()
	n := len(instr.States)
	recvVals := make([]value, n)
	chosen := -1
	recvOk := false
	// which cases are ready?
	var readyIdx []int
	for i, st := range instr.States {
		c := fr.get(st.Chan).(*gchan)
		if c == nil {
			continue
		}
		if st.Dir == types.RecvOnly {
			if len(c.buf) > 0 || c.closed || hasLive(c.sendq) {
				readyIdx = append(readyIdx, i)
			}
		} else {
			if c.closed || hasLive(c.recvq) || len(c.buf) < c.cap {
				readyIdx = append(readyIdx, i)
			}
		}
	}
	if len(readyIdx) > 0 {
		k := 0
		if len(readyIdx) > 1 && (s.schedMode || fr.i.px.selectChoice) {
			// Go picks uniformly at random among ready cases
			k = fr.i.px.choice(len(readyIdx), "select")
		}
		i := readyIdx[k]
		st := instr.States[i]
		c := fr.get(st.Chan).(*gchan)
		if st.Dir == types.RecvOnly {
			v, ok, _ := s.tryRecv(c)
			chosen, recvOk = i, ok
			if ok {
				recvVals[i] = v
			}
		} else {
			s.trySend(c, fr.get(st.Send)) // panics if closed
			chosen = i
		}
	}
	if chosen == -1 && instr.Blocking {
		done := false
		oks := make([]bool, n)
		any := false
		for i, st := range instr.States {
			c := fr.get(st.Chan).(*gchan)
			if c == nil {
				continue
			}
			any = true
			w := &waiter{g: s.cur, sel: &chosen, idx: i, done: &done, vc: s.cur.vc.copy()}
			if st.Dir == types.RecvOnly {
				w.slot, w.ok = &recvVals[i], &oks[i]
				c.recvq = append(c.recvq, w)
			} else {
				w.val = fr.get(st.Send)
				c.sendq = append(c.sendq, w)
			}
		}
		_ = any
		s.park("select")
		if chosen >= 0 {
			st := instr.States[chosen]
			if st.Dir == types.RecvOnly {
				recvOk = oks[chosen]
			} else if fr.get(st.Chan).(*gchan).closed {
				panic(rtErr("send on closed channel"))
			}
		}
	}
	r := tuple{chosen, recvOk}
	for i, st := range instr.States {
		if st.Dir == types.RecvOnly {
			v := recvVals[i]
			if !(i == chosen && recvOk) || v == nil {
				v = zero(st.Chan.Type().Underlying().(*types.Chan).Elem())
			}
			r = append(r, v)
		}
	}
	return r
}

func hasLive(q []*waiter) bool {
	for _, w := range q {
		if w.done == nil || !*w.done {
			return true
		}
	}
	return false
}

// ---------------------------------------------------------------- mutex

// Mutex state lives in field 0 of the interpreted sync.Mutex struct
// (int32: 0 unlocked, 1 locked); waiters are queued per address.
func (s *sched) lock(m *value) {
	s.yield()
	st := (*m).(structure)
	for st[0].(int32) != 0 {
		s.mutexq[m] = append(s.mutexq[m], s.cur)
		s.park("mutex")
	}
	st[0] = int32(1)
	s.acquireAddr(m)
}

func (s *sched) unlock(m *value) {
	st := (*m).(structure)
	if st[0].(int32) == 0 {
		panic(targetPanic{"sync: unlock of unlocked mutex"})
	}
	st[0] = int32(0)
	s.releaseAddr(m)
	if q := s.mutexq[m]; len(q) > 0 {
		g := q[0]
		s.mutexq[m] = q[1:]
		s.ready(g)
	}
	s.yield()
}

// panicValString renders a panic value without addresses (stable keys).
func panicValString(v value) string {
	if itf, ok := v.(iface); ok {
		if itf.t == nil {
			return "nil"
		}
		switch x := itf.v.(type) {
		case string:
			return "(" + itf.t.String() + ") " + x
		case sstr, decStr:
			return "(" + itf.t.String() + ") <symbolic string>"
		case *value:
			if x != nil {
				if st, ok := (*x).(structure); ok && len(st) > 0 {
					if s, ok := st[0].(string); ok {
						return "(" + itf.t.String() + ") " + s
					}
				}
			}
			return "(" + itf.t.String() + ")"
		}
		return "(" + itf.t.String() + ") " + toString(itf.v)
	}
	return toString(v)
}
