package h

import (
	"bufio"
	"strings"

	"github.com/hattya/go.sh/interp"
	"github.com/hattya/go.sh/parser"
	"verifharness/nd"
)

// C01 — parsing is total. The assertions are the engine's own: no panic in
// the caller, no death of a background goroutine, no "blocks forever", the
// call returns inside the instruction budget.

func c01F(n int) {
	r := freeRunes(n, false)
	cmds, _, err, _ := parseRunes(nil, r)
	if err == nil {
		nd.Cover("accepted")
		if len(cmds) == 0 {
			nd.Cover("empty")
		}
	} else {
		nd.Cover("rejected")
	}
	nd.Observe(errStr(err))
	nd.Observe(Skel(cmds))
}

func C01_F1() { c01F(1) }
func C01_F2() { c01F(2) }
func C01_F3() { c01F(3) }
func C01_F4() { c01F(4) }

// C01_T1: every template with one symbolic hole at every position.
func C01_T1() {
	t := []rune(Templates[nd.Choice(len(Templates))])
	k := nd.Choice(len(t))
	t[k] = nd.Rune()
	_, _, err, _ := parseRunes(nil, t)
	if err == nil {
		nd.Cover("accepted")
	} else {
		nd.Cover("rejected")
	}
	nd.Observe(errStr(err))
}

// C01_T2: two adjacent symbolic holes.
func C01_T2() {
	t := []rune(Templates[nd.Choice(len(Templates))])
	k := nd.Choice(len(t) - 1)
	t[k] = nd.RuneASCII()
	t[k+1] = nd.RuneASCII()
	_, _, err, _ := parseRunes(nil, t)
	nd.Observe(errStr(err))
}

// C01_Ins1: every template with one symbolic rune inserted at every position.
func C01_Ins1() {
	t := []rune(Templates[nd.Choice(len(Templates))])
	k := nd.Choice(len(t) + 1)
	u := make([]rune, 0, len(t)+1)
	u = append(u, t[:k]...)
	u = append(u, nd.Rune())
	u = append(u, t[k:]...)
	_, _, err, _ := parseRunes(nil, u)
	nd.Observe(errStr(err))
}

// C01_Alias: alias table {a: v1, b: v2} with symbolic values (two free ASCII
// bytes each, optional trailing blank), two free input runes followed by " a".
// Self-reference, mutual recursion and blank chaining arise by themselves.
func C01_Alias() {
	env := interp.NewExecEnv("sh")
	v1, v2 := nd.Str(2), nd.Str(1)
	if nd.Choice(2) == 1 {
		v1 += " "
	}
	if nd.Choice(2) == 1 {
		v2 += " "
	}
	env.Aliases["a"] = v1
	env.Aliases["b"] = v2
	in := []rune{nd.RuneIn("ab ;\n"), nd.RuneIn("ab ;\n"), ' ', 'a', ' ', 'b'}
	cmds, _, err, _ := parseRunes(env, in)
	if err == nil && len(cmds) > 0 {
		nd.Cover("accepted")
	}
	nd.Observe(errStr(err))
	nd.Observe(Skel(cmds))
}

// C01_Err: ill-formed programs whose error is found while the lexer still has
// a here-document, a substitution or a comment of the same line to read.
func C01_Err() {
	t := []rune(ErrTemplates[nd.Choice(len(ErrTemplates))])
	_, _, err, _ := parseRunes(nil, t)
	nd.Assert(err != nil, "an ill-formed program is rejected")
	nd.Observe(errStr(err))
}

// C01_Err1: the same with one symbolic hole.
func C01_Err1() {
	t := []rune(ErrTemplates[nd.Choice(len(ErrTemplates))])
	k := nd.Choice(len(t))
	t[k] = nd.Rune()
	_, _, err, _ := parseRunes(nil, t)
	nd.Observe(errStr(err))
}

// C01_AliasQ: the quick form of C01_Alias: alias a is one free ASCII byte
// (optionally followed by a blank), alias b is "x"; the input uses both.
func C01_AliasQ() {
	env := interp.NewExecEnv("sh")
	v := nd.Str(1)
	if nd.Choice(2) == 1 {
		v += " "
	}
	env.Aliases["a"] = v
	env.Aliases["b"] = "x"
	cmds, _, err, _ := parseRunes(env, []rune("a b; a"))
	if err == nil && len(cmds) > 0 {
		nd.Cover("accepted")
	}
	nd.Observe(errStr(err))
	nd.Observe(Skel(cmds))
}

// C01_Sources: the four source forms on concrete witnesses (the type switch
// in open and the std decoders).
func C01_Sources() {
	src := Templates[nd.Choice(len(Templates))]
	var got [4]string
	for i := 0; i < 4; i++ {
		var in interface{}
		switch i {
		case 0:
			in = src
		case 1:
			in = []byte(src)
		case 2:
			in = bufio.NewReader(strings.NewReader(src))
		case 3:
			in = onlyReader{strings.NewReader(src)}
		}
		cmds, _, err := parser.ParseCommands(nil, "src", in)
		got[i] = errStr(err) + " " + Skel(cmds)
	}
	nd.Assert(got[0] == got[1] && got[1] == got[2] && got[2] == got[3], "the four source forms parse alike")
	_, _, err := parser.ParseCommands(nil, "src", 42)
	nd.Assert(err != nil, "invalid source type is an error")
	nd.Observe(got[0])
}

type onlyReader struct{ r *strings.Reader }

func (o onlyReader) Read(p []byte) (int, error) { return o.r.Read(p) }

// Selftest_Engine: a tiny fixed harness used by setup to see that the engine,
// the solver pipe and the loader work.
func Selftest_Engine() {
	r := nd.RuneASCII()
	nd.Assume(r >= 'a' && r <= 'c')
	cmds, _, err, _ := parseRunes(nil, []rune{r, ' ', 'x'})
	nd.Assert(err == nil && len(cmds) == 1, "selftest parse")
}
