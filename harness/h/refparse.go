package h

// refparse — an independent recursive-descent recogniser of the dialect that
// go.sh's parser accepts, written at rune level from the POSIX grammar (token
// recognition 2.3, grammar 2.10) plus go.sh's documented extensions and
// pinned quirks:
//   * "((" with no parenthesis open starts the arithmetic command (( expr ));
//   * '#' ends a word and starts a comment wherever it stands (pinned by the
//     repository's tests: "go version# comment");
//   * inside backquotes a nested command list runs up to the next backquote;
//   * ${...} accepts exactly the operators of the parameter-expansion table.
// It answers, for the first command line of the input: Complete (and where it
// ends), Incomplete (more input needed) or IllFormed. It runs symbolically in
// the same engine as the parser, so a disagreement is decided by the solver
// under the same path condition. It shares no code with go.sh.

const (
	RefComplete = iota
	RefIncomplete
	RefIllFormed
)

type refHere struct {
	delim     string
	stripTabs bool
	quoted    bool // some part of the delimiter word was quoted: the body is literal
}

type refParser struct {
	s      []rune
	i      int
	fail   int // 0, RefIncomplete or RefIllFormed (first failure wins)
	paren  int // open parentheses (for the "((" rule)
	here   []refHere
	bq     int // nesting inside backquotes
	tok    refTok
	peeked bool
}

type refTok struct {
	kind  int // tkEOF, tkNL, tkWord, tkOp, tkIONumber
	op    string
	text  string // for words: the literal text if the word is one unquoted literal, else ""
	plain bool   // the word is a single unquoted literal
	start int
}

const (
	tkEOF = iota
	tkNL
	tkWord
	tkOp
	tkIONumber
)

func (p *refParser) failWith(k int) {
	if p.fail == 0 {
		p.fail = k
	}
}

func (p *refParser) eof() bool { return p.i >= len(p.s) }

func isBlankRune(r rune) bool { return r == ' ' || r == '\t' }

func isMetaRune(r rune) bool {
	switch r {
	case '|', '&', ';', '<', '>', '(', ')':
		return true
	}
	return false
}

func isNameStart(r rune) bool {
	return r == '_' || (r >= 'a' && r <= 'z') || (r >= 'A' && r <= 'Z') || r == 'é' || r == '世' || r == '𝒳'
}

func isDigitRune(r rune) bool { return (r >= '0' && r <= '9') || r == '٣' }

func isNameRune(r rune) bool { return isNameStart(r) || isDigitRune(r) }

// skipLayout skips blanks, line continuations and a comment (up to, not
// including, the newline).
func (p *refParser) skipLayout() {
	for !p.eof() {
		r := p.s[p.i]
		switch {
		case isBlankRune(r):
			p.i++
		case r == '\\' && p.i+1 < len(p.s) && p.s[p.i+1] == '\n':
			p.i += 2
		case r == '#':
			for !p.eof() && p.s[p.i] != '\n' {
				p.i++
			}
			return
		default:
			return
		}
	}
}

// next scans the next token.
func (p *refParser) next() refTok {
	if p.peeked {
		p.peeked = false
		return p.tok
	}
	p.skipLayout()
	t := refTok{start: p.i}
	if p.eof() {
		t.kind = tkEOF
		return t
	}
	r := p.s[p.i]
	if r == '\n' {
		p.i++
		t.kind = tkNL
		return t
	}
	if isMetaRune(r) {
		t.kind = tkOp
		t.op = p.scanOperator()
		return t
	}
	if r == '`' && p.bq > 0 {
		// the closing backquote of the enclosing substitution
		t.kind = tkOp
		t.op = "`"
		return t
	}
	p.scanWord(&t)
	return t
}

func (p *refParser) peek() refTok {
	if !p.peeked {
		p.tok = p.next()
		p.peeked = true
	}
	return p.tok
}

func (p *refParser) scanOperator() string {
	r := p.s[p.i]
	p.i++
	nextIs := func(c rune) bool { return p.i < len(p.s) && p.s[p.i] == c }
	switch r {
	case '&':
		if nextIs('&') {
			p.i++
			return "&&"
		}
		return "&"
	case '|':
		if nextIs('|') {
			p.i++
			return "||"
		}
		return "|"
	case ';':
		if nextIs(';') {
			p.i++
			return ";;"
		}
		return ";"
	case '<':
		switch {
		case nextIs('<'):
			p.i++
			if nextIs('-') {
				p.i++
				return "<<-"
			}
			return "<<"
		case nextIs('&'):
			p.i++
			return "<&"
		case nextIs('>'):
			p.i++
			return "<>"
		}
		return "<"
	case '>':
		switch {
		case nextIs('>'):
			p.i++
			return ">>"
		case nextIs('&'):
			p.i++
			return ">&"
		case nextIs('|'):
			p.i++
			return ">|"
		}
		return ">"
	case '(':
		if p.paren == 0 && nextIs('(') {
			p.i++
			return "(("
		}
		return "("
	}
	return ")"
}

// scanWord scans one word starting at p.i (which is not layout, not a
// metacharacter).
func (p *refParser) scanWord(t *refTok) {
	t.kind = tkWord
	t.plain = true
	text := ""
	for !p.eof() {
		r := p.s[p.i]
		if isBlankRune(r) || r == '\n' || isMetaRune(r) || r == '#' {
			break
		}
		if r == '`' && p.bq > 0 {
			break
		}
		switch r {
		case '\\':
			if p.i+1 >= len(p.s) {
				// a backslash at the very end of input: go.sh keeps it as an empty escape
				p.i++
				t.plain = false
				continue
			}
			if p.s[p.i+1] == '\n' {
				p.i += 2
				t.plain = false // go.sh splits the literal here
				continue
			}
			p.i += 2
			t.plain = false
		case '\'':
			t.plain = false
			p.i++
			for !p.eof() && p.s[p.i] != '\'' {
				p.i++
			}
			if p.eof() {
				p.failWith(RefIncomplete)
				return
			}
			p.i++
		case '"':
			t.plain = false
			p.i++
			p.scanDoubleQuoted()
			if p.fail != 0 {
				return
			}
		case '$':
			if p.scanDollar() {
				t.plain = false
			} else {
				text += "$"
			}
			if p.fail != 0 {
				return
			}
		case '`':
			t.plain = false
			p.i++
			p.scanBackquoted()
			if p.fail != 0 {
				return
			}
		default:
			text += string(r)
			p.i++
		}
	}
	if t.plain {
		t.text = text
		// IO_NUMBER: all digits and directly followed by < or >
		if text != "" && !p.eof() && (p.s[p.i] == '<' || p.s[p.i] == '>') {
			all := true
			for _, c := range text {
				if !(c >= '0' && c <= '9') {
					all = false
				}
			}
			if all {
				t.kind = tkIONumber
			}
		}
	}
}

func (p *refParser) scanDoubleQuoted() {
	for !p.eof() {
		r := p.s[p.i]
		switch r {
		case '"':
			p.i++
			return
		case '\\':
			if p.i+1 >= len(p.s) {
				p.i++
				p.failWith(RefIncomplete)
				return
			}
			p.i += 2
		case '$':
			p.scanDollar()
			if p.fail != 0 {
				return
			}
		case '`':
			p.i++
			p.scanBackquoted()
			if p.fail != 0 {
				return
			}
		default:
			p.i++
		}
	}
	p.failWith(RefIncomplete)
}

// scanDollar scans an expansion starting at '$'; it reports false when the
// '$' is just a literal character.
func (p *refParser) scanDollar() bool {
	p.i++ // '$'
	if p.eof() {
		return false
	}
	r := p.s[p.i]
	switch {
	case r == '{':
		p.i++
		p.scanBraces()
		return true
	case r == '(':
		// $(( arithmetic )) or $( command list )
		if p.i+1 < len(p.s) && p.s[p.i+1] == '(' {
			p.i += 2
			p.scanArith()
			return true
		}
		p.i++
		p.paren++
		p.commandListUntil(")")
		p.paren--
		return true
	case r == '@' || r == '*' || r == '#' || r == '?' || r == '-' || r == '$' || r == '!' || r == '0':
		p.i++
		return true
	case isDigitRune(r):
		p.i++
		return true
	case isNameStart(r):
		for !p.eof() && isNameRune(p.s[p.i]) {
			p.i++
		}
		return true
	}
	return false
}

// scanArith scans an arithmetic expression up to its closing "))".
func (p *refParser) scanArith() {
	depth := 0
	for !p.eof() {
		r := p.s[p.i]
		switch r {
		case '(':
			depth++
			p.i++
		case ')':
			if depth == 0 {
				if p.i+1 < len(p.s) && p.s[p.i+1] == ')' {
					p.i += 2
					return
				}
				// an unbalanced ')' inside the expression
				p.failWith(RefIllFormed)
				return
			}
			depth--
			p.i++
		case '\\':
			if p.i+1 >= len(p.s) {
				p.i++
				continue
			}
			p.i += 2
		case '\'':
			p.i++
			for !p.eof() && p.s[p.i] != '\'' {
				p.i++
			}
			if p.eof() {
				p.failWith(RefIncomplete)
				return
			}
			p.i++
		case '"':
			p.i++
			p.scanDoubleQuoted()
			if p.fail != 0 {
				return
			}
		case '$':
			p.scanDollar()
			if p.fail != 0 {
				return
			}
		case '`':
			p.i++
			p.scanBackquoted()
			if p.fail != 0 {
				return
			}
		default:
			p.i++
		}
	}
	p.failWith(RefIncomplete)
}

// scanBraces scans the inside of ${ ... }.
func (p *refParser) scanBraces() {
	if p.eof() {
		p.failWith(RefIncomplete)
		return
	}
	// ${#name}, ${#}, ${##}, ${#?}, ${#-} and the special parameter # with an operator
	if p.s[p.i] == '#' {
		if p.i+1 >= len(p.s) {
			p.i++
			p.failWith(RefIncomplete)
			return
		}
		n := p.s[p.i+1]
		switch {
		case n == '}':
			p.i += 2 // ${#}
			return
		case n == ':' || n == '=' || n == '+' || n == '%':
			p.i++ // parameter '#', operator follows
			p.braceOperator()
			return
		case n == '#' || n == '?' || n == '-':
			if p.i+2 >= len(p.s) {
				p.i += 2
				p.failWith(RefIncomplete)
				return
			}
			if p.s[p.i+2] == '}' {
				p.i += 3 // length of the special parameter
				return
			}
			p.i++ // parameter '#', operator follows
			p.braceOperator()
			return
		default:
			p.i++ // string length of the following name
			if !p.braceName() {
				return
			}
			if p.eof() {
				p.failWith(RefIncomplete)
				return
			}
			if p.s[p.i] != '}' {
				p.failWith(RefIllFormed)
				return
			}
			p.i++
			return
		}
	}
	if !p.braceName() {
		return
	}
	p.braceOperator()
}

// braceName scans a parameter name inside braces.
func (p *refParser) braceName() bool {
	if p.eof() {
		p.failWith(RefIncomplete)
		return false
	}
	r := p.s[p.i]
	switch {
	case r == '@' || r == '*' || r == '?' || r == '-' || r == '$' || r == '!' || r == '0':
		p.i++
		return true
	case isNameRune(r):
		for !p.eof() && isNameRune(p.s[p.i]) {
			p.i++
		}
		if p.eof() {
			p.failWith(RefIncomplete)
			return false
		}
		return true
	}
	p.failWith(RefIllFormed)
	return false
}

// braceOperator scans "}" or an operator, the word and "}".
func (p *refParser) braceOperator() {
	if p.eof() {
		p.failWith(RefIncomplete)
		return
	}
	r := p.s[p.i]
	switch r {
	case '}':
		p.i++
		return
	case ':':
		if p.i+1 >= len(p.s) {
			p.i++
			p.failWith(RefIncomplete)
			return
		}
		n := p.s[p.i+1]
		if n != '-' && n != '=' && n != '?' && n != '+' {
			p.failWith(RefIllFormed)
			return
		}
		p.i += 2
	case '-', '=', '?', '+':
		p.i++
	case '%', '#':
		p.i++
		if p.eof() {
			p.failWith(RefIncomplete)
			return
		}
		if p.s[p.i] == r {
			p.i++
		} else if p.s[p.i] == '%' || p.s[p.i] == '#' {
			p.failWith(RefIllFormed) // ${a%#...}: go.sh rejects mixed operators
			return
		}
	default:
		p.failWith(RefIllFormed)
		return
	}
	// the word, up to the closing brace
	for !p.eof() {
		c := p.s[p.i]
		switch c {
		case '}':
			p.i++
			return
		case '\\':
			if p.i+1 >= len(p.s) {
				p.i++
				continue
			}
			p.i += 2
		case '\'':
			p.i++
			for !p.eof() && p.s[p.i] != '\'' {
				p.i++
			}
			if p.eof() {
				p.failWith(RefIncomplete)
				return
			}
			p.i++
		case '"':
			p.i++
			p.scanDoubleQuoted()
			if p.fail != 0 {
				return
			}
		case '$':
			p.scanDollar()
			if p.fail != 0 {
				return
			}
		default:
			p.i++
		}
	}
	p.failWith(RefIncomplete)
}

// scanBackquoted parses a command list up to the closing backquote.
func (p *refParser) scanBackquoted() {
	p.bq++
	savedParen := p.paren
	p.paren = 1 // go.sh treats the backquote as an open parenthesis
	p.commandListUntil("`")
	p.paren = savedParen
	p.bq--
}

// ---------------------------------------------------------------- grammar

func isReserved(w string) bool {
	switch w {
	case "!", "{", "}", "for", "case", "esac", "in", "if", "elif", "then", "else", "fi", "while", "until", "do", "done":
		return true
	}
	return false
}

func (t refTok) isWordLike() bool { return t.kind == tkWord }

func (t refTok) reserved(w string) bool { return t.kind == tkWord && t.plain && t.text == w }

func (t refTok) isOp(op string) bool { return t.kind == tkOp && t.op == op }

func isRedirOp(t refTok) bool {
	if t.kind != tkOp {
		return false
	}
	switch t.op {
	case "<", ">", ">>", ">|", "<>", "<&", ">&", "<<", "<<-":
		return true
	}
	return false
}

// commandListUntil parses a compound list that must be closed by closer
// (")" or "`"), which is consumed.
func (p *refParser) commandListUntil(closer string) {
	p.compoundList()
	if p.fail != 0 {
		return
	}
	t := p.next()
	if t.kind == tkEOF {
		p.failWith(RefIncomplete)
		return
	}
	if !t.isOp(closer) {
		p.failWith(RefIllFormed)
		return
	}
	if closer == "`" {
		p.i++ // the backquote itself
	}
}

// linebreak skips newlines (reading here-documents) and comments.
func (p *refParser) linebreak() {
	for {
		t := p.peek()
		if t.kind != tkNL {
			return
		}
		p.next()
		p.readHeredocs()
		if p.fail != 0 {
			return
		}
	}
}

func (p *refParser) readHeredocs() {
	for len(p.here) > 0 {
		h := p.here[0]
		p.here = p.here[1:]
		p.peeked = false
		found := false
		for !found {
			if p.eof() {
				p.failWith(RefIncomplete)
				return
			}
			// the line starting here: is it the delimiter line?
			j := p.i
			for j < len(p.s) && p.s[j] != '\n' {
				j++
			}
			line := p.s[p.i:j]
			if h.stripTabs {
				for len(line) > 0 && line[0] == '\t' {
					line = line[1:]
				}
			}
			if string(line) == h.delim {
				p.i = j
				if p.i < len(p.s) {
					p.i++
				}
				found = true
				break
			}
			if h.quoted {
				// literal body: skip the line
				p.i = j
				if p.i < len(p.s) {
					p.i++
				} else {
					p.failWith(RefIncomplete)
					return
				}
				continue
			}
			// the body of an unquoted here-document is scanned for expansions,
			// which may span lines; the delimiter is looked for again at the
			// start of the line that follows them
			for !p.eof() && p.s[p.i] != '\n' && p.fail == 0 {
				switch p.s[p.i] {
				case '\\':
					p.i += 2
					if p.i > len(p.s) {
						p.i = len(p.s)
					}
				case '$':
					p.scanDollar()
					p.peeked = false
				case '`':
					p.i++
					p.scanBackquoted()
					p.peeked = false
				default:
					p.i++
				}
			}
			if p.fail != 0 {
				p.fail = RefIllFormed
				return
			}
			if p.eof() {
				// the text ends inside the body: the last line may still be the delimiter
				k := len(p.s)
				for k > 0 && p.s[k-1] != '\n' {
					k--
				}
				last := p.s[k:]
				if h.stripTabs {
					for len(last) > 0 && last[0] == '\t' {
						last = last[1:]
					}
				}
				if string(last) == h.delim {
					found = true
					break
				}
				p.failWith(RefIncomplete)
				return
			}
			p.i++ // the newline
		}
	}
}

// startsCommand: can t begin a command?
func startsCommand(t refTok) bool {
	switch t.kind {
	case tkWord:
		if t.plain {
			switch t.text {
			case "}", "esac", "in", "elif", "then", "else", "fi", "do", "done":
				return false
			}
		}
		return true
	case tkIONumber:
		return true
	case tkOp:
		return t.op == "(" || t.op == "((" || isRedirOp(t)
	}
	return false
}

// compoundList: linebreak term (separator term)* separator? — stops before a
// token that cannot start a command.
func (p *refParser) compoundList() {
	p.linebreak()
	if p.fail != 0 {
		return
	}
	if !startsCommand(p.peek()) {
		p.failWith(p.missing())
		return
	}
	for {
		p.andOr()
		if p.fail != 0 {
			return
		}
		t := p.peek()
		switch {
		case t.isOp(";") || t.isOp("&"):
			p.next()
			p.linebreak()
		case t.kind == tkNL:
			p.linebreak()
		default:
			return
		}
		if p.fail != 0 {
			return
		}
		if !startsCommand(p.peek()) {
			return
		}
	}
}

// missing: the kind of failure when a command is required but the next token
// cannot start one.
func (p *refParser) missing() int {
	if p.peek().kind == tkEOF {
		return RefIncomplete
	}
	return RefIllFormed
}

func (p *refParser) andOr() {
	p.pipeline()
	for p.fail == 0 {
		t := p.peek()
		if !(t.isOp("&&") || t.isOp("||")) {
			return
		}
		p.next()
		p.linebreak()
		if p.fail != 0 {
			return
		}
		if !startsCommand(p.peek()) {
			p.failWith(p.missing())
			return
		}
		p.pipeline()
	}
}

func (p *refParser) pipeline() {
	if p.peek().reserved("!") {
		p.next()
		if !startsCommand(p.peek()) || p.peek().reserved("!") {
			p.failWith(p.missing())
			return
		}
	}
	p.command()
	for p.fail == 0 {
		if !p.peek().isOp("|") {
			return
		}
		p.next()
		p.linebreak()
		if p.fail != 0 {
			return
		}
		if !startsCommand(p.peek()) || p.peek().reserved("!") {
			p.failWith(p.missing())
			return
		}
		p.command()
	}
}

func (p *refParser) expectReserved(w string) {
	t := p.next()
	if t.reserved(w) {
		return
	}
	if t.kind == tkEOF {
		p.failWith(RefIncomplete)
	} else {
		p.failWith(RefIllFormed)
	}
}

func (p *refParser) redirections() {
	for p.fail == 0 {
		t := p.peek()
		if t.kind == tkIONumber {
			p.next()
			t = p.peek()
			if !isRedirOp(t) {
				p.failWith(RefIllFormed)
				return
			}
		}
		if !isRedirOp(t) {
			return
		}
		p.redirect()
	}
}

// redirect parses operator + word.
func (p *refParser) redirect() {
	op := p.next()
	startW := p.i
	w := p.next()
	if w.kind != tkWord {
		if w.kind == tkEOF {
			p.failWith(RefIncomplete)
		} else {
			p.failWith(RefIllFormed)
		}
		return
	}
	if op.op == "<<" || op.op == "<<-" {
		p.here = append(p.here, refHere{delim: unquoteDelim(p.s[w.start:p.i]), stripTabs: op.op == "<<-", quoted: !w.plain && hasQuoting(p.s[w.start:p.i])})
	}
	_ = startW
}

func hasQuoting(w []rune) bool {
	for _, r := range w {
		if r == '\\' || r == '\'' || r == '"' {
			return true
		}
	}
	return false
}

// unquoteDelim performs quote removal on a here-document delimiter word.
func unquoteDelim(w []rune) string {
	out := ""
	for i := 0; i < len(w); i++ {
		switch w[i] {
		case '\\':
			if i+1 < len(w) {
				i++
				out += string(w[i])
			}
		case '\'':
			i++
			for i < len(w) && w[i] != '\'' {
				out += string(w[i])
				i++
			}
		case '"':
			i++
			for i < len(w) && w[i] != '"' {
				if w[i] == '\\' && i+1 < len(w) {
					i++
				}
				out += string(w[i])
				i++
			}
		default:
			out += string(w[i])
		}
	}
	return out
}

func (p *refParser) command() {
	t := p.peek()
	switch {
	case t.isOp("(("):
		p.next()
		p.scanArithCommand()
		p.redirections()
	case t.isOp("("):
		p.next()
		p.paren++
		p.commandListUntil(")")
		p.paren--
		p.redirections()
	case t.reserved("{"):
		p.next()
		p.compoundList()
		if p.fail == 0 {
			p.expectReserved("}")
		}
		p.redirections()
	case t.reserved("if"):
		p.next()
		p.ifClause()
		p.redirections()
	case t.reserved("while") || t.reserved("until"):
		p.next()
		p.compoundList()
		if p.fail == 0 {
			p.doGroup()
		}
		p.redirections()
	case t.reserved("for"):
		p.next()
		p.forClause()
		p.redirections()
	case t.reserved("case"):
		p.next()
		p.caseClause()
		p.redirections()
	default:
		p.simpleCommand()
	}
}

// scanArithCommand scans (( expr )) after its "((".
func (p *refParser) scanArithCommand() {
	p.peeked = false
	p.scanArith()
}

func (p *refParser) doGroup() {
	p.expectReserved("do")
	if p.fail != 0 {
		return
	}
	p.compoundList()
	if p.fail == 0 {
		p.expectReserved("done")
	}
}

func (p *refParser) ifClause() {
	p.compoundList()
	if p.fail != 0 {
		return
	}
	p.expectReserved("then")
	if p.fail != 0 {
		return
	}
	p.compoundList()
	for p.fail == 0 {
		t := p.peek()
		switch {
		case t.reserved("elif"):
			p.next()
			p.compoundList()
			if p.fail != 0 {
				return
			}
			p.expectReserved("then")
			if p.fail != 0 {
				return
			}
			p.compoundList()
		case t.reserved("else"):
			p.next()
			p.compoundList()
			if p.fail != 0 {
				return
			}
			p.expectReserved("fi")
			return
		default:
			p.expectReserved("fi")
			return
		}
	}
}

func isPlainName(t refTok) bool {
	if t.kind != tkWord || !t.plain || t.text == "" {
		return false
	}
	for i, r := range t.text {
		if !(isNameStart(r) || (i > 0 && isDigitRune(r))) {
			return false
		}
	}
	return true
}

func (p *refParser) forClause() {
	name := p.next()
	if name.kind == tkEOF {
		p.failWith(RefIncomplete)
		return
	}
	if !isPlainName(name) {
		p.failWith(RefIllFormed)
		return
	}
	t := p.peek()
	switch {
	case t.isOp(";"):
		p.next()
		p.linebreak()
	case t.kind == tkNL:
		p.linebreak()
		if p.fail == 0 && p.peek().reserved("in") {
			p.next()
			p.forWords()
		}
	case t.reserved("in"):
		p.next()
		p.forWords()
	}
	if p.fail != 0 {
		return
	}
	p.doGroup()
}

// forWords: WORD* (';' | NEWLINE) linebreak
func (p *refParser) forWords() {
	for {
		t := p.peek()
		switch {
		case t.kind == tkWord:
			p.next()
		case t.isOp(";"):
			p.next()
			p.linebreak()
			return
		case t.kind == tkNL:
			p.linebreak()
			return
		case t.kind == tkEOF:
			p.failWith(RefIncomplete)
			return
		default:
			p.failWith(RefIllFormed)
			return
		}
	}
}

func (p *refParser) caseClause() {
	w := p.next()
	if w.kind == tkEOF {
		p.failWith(RefIncomplete)
		return
	}
	if w.kind != tkWord {
		p.failWith(RefIllFormed)
		return
	}
	p.linebreak()
	if p.fail != 0 {
		return
	}
	p.expectReserved("in")
	if p.fail != 0 {
		return
	}
	p.linebreak()
	for p.fail == 0 {
		t := p.peek()
		if t.reserved("esac") {
			p.next()
			return
		}
		// pattern list
		if t.isOp("(") {
			p.next()
		}
		first := true
		for {
			t = p.next()
			if t.kind == tkEOF {
				p.failWith(RefIncomplete)
				return
			}
			if t.kind != tkWord {
				p.failWith(RefIllFormed)
				return
			}
			first = false
			n := p.next()
			if n.isOp(")") {
				break
			}
			if n.kind == tkEOF {
				p.failWith(RefIncomplete)
				return
			}
			if !n.isOp("|") {
				p.failWith(RefIllFormed)
				return
			}
		}
		_ = first
		p.linebreak()
		if p.fail != 0 {
			return
		}
		t = p.peek()
		if !t.isOp(";;") && !t.reserved("esac") {
			p.compoundList()
			if p.fail != 0 {
				return
			}
			t = p.peek()
		}
		if t.isOp(";;") {
			p.next()
			p.linebreak()
			continue
		}
		p.expectReserved("esac")
		return
	}
}

// simpleCommand: prefix (assignments, redirections), command word, suffix;
// also a function definition NAME ( ) linebreak compound_command.
func (p *refParser) simpleCommand() {
	seenWord := false
	first := true
	for p.fail == 0 {
		t := p.peek()
		switch {
		case t.kind == tkIONumber || isRedirOp(t):
			if t.kind == tkIONumber {
				p.next()
				if !isRedirOp(p.peek()) {
					p.failWith(RefIllFormed)
					return
				}
			}
			p.redirect()
		case t.kind == tkWord:
			p.next()
			if first && isPlainName(t) && !isReserved(t.text) && p.peek().isOp("(") {
				// function definition
				p.next()
				c := p.next()
				if c.kind == tkEOF {
					p.failWith(RefIncomplete)
					return
				}
				if !c.isOp(")") {
					p.failWith(RefIllFormed)
					return
				}
				p.linebreak()
				if p.fail != 0 {
					return
				}
				b := p.peek()
				if b.kind == tkEOF {
					p.failWith(RefIncomplete)
					return
				}
				if !(b.isOp("(") || b.isOp("((") || b.reserved("{") || b.reserved("if") || b.reserved("while") || b.reserved("until") || b.reserved("for") || b.reserved("case")) {
					p.failWith(RefIllFormed)
					return
				}
				if isSpecialBuiltinName(t.text) {
					p.failWith(RefIllFormed)
					return
				}
				p.command()
				return
			}
			seenWord = true
		default:
			if !seenWord && first {
				p.failWith(p.missing())
			}
			return
		}
		first = false
	}
}

func isSpecialBuiltinName(s string) bool {
	switch s {
	case "break", ":", "continue", ".", "eval", "exec", "exit", "export", "readonly", "return", "set", "shift", "times", "trap", "unset":
		return true
	}
	return false
}

// RefParse classifies the first command line of src and returns where it ends.
func RefParse(src []rune) (verdict int, end int) {
	p := &refParser{s: src}
	// pinned quirk: a comment that nothing precedes is skipped together with
	// the blank and comment lines that follow it
	j := 0
	for j < len(src) && isBlankRune(src[j]) {
		j++
	}
	if j < len(src) && src[j] == '#' {
		for j < len(src) {
			c := src[j]
			if c == '#' {
				for j < len(src) && src[j] != '\n' {
					j++
				}
				continue
			}
			if c == '\n' || isBlankRune(c) {
				j++
				continue
			}
			break
		}
		p.i = j
	}
	t := p.peek()
	switch {
	case t.kind == tkEOF:
		return RefComplete, p.i
	case t.kind == tkNL:
		p.next()
		return RefComplete, p.i
	}
	if !startsCommand(t) {
		return RefIllFormed, p.i
	}
	// list: and_or (separator and_or)* separator?
	for {
		p.andOr()
		if p.fail != 0 {
			return p.fail, p.i
		}
		t = p.peek()
		sep := false
		if t.isOp(";") || t.isOp("&") {
			p.next()
			t = p.peek()
			sep = true
		}
		if !sep && t.kind != tkEOF && t.kind != tkNL {
			return RefIllFormed, p.i // two commands need a separator
		}
		if t.kind == tkEOF {
			if len(p.here) > 0 {
				return RefIncomplete, p.i
			}
			return RefComplete, p.i
		}
		if t.kind == tkNL {
			p.next()
			p.readHeredocs()
			if p.fail != 0 {
				return p.fail, p.i
			}
			return RefComplete, p.i
		}
		if !startsCommand(t) {
			return RefIllFormed, p.i
		}
	}
}
