package main

// registry maps harness names to functions. The check driver regenerates this
// file (through a build overlay) from the exported niladic functions of
// verifharness/h, so it is always complete; this committed copy only keeps
// the package buildable on its own.
var registry = map[string]func(){}
