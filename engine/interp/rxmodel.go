package interp

// gosx: a symbolic model of Go's regexp matching (leftmost-first, Perl-like
// priorities) for subjects with symbolic bytes. The regular expression itself
// is always concrete (it comes from regexp.Compile on a concretised source and
// compile errors are the real ones). The matcher is a backtracking search over
// the regexp/syntax tree whose character tests are solver-decided branches.
// It is a model of std: SelfTestRegex validates it against the real regexp
// package on concrete subjects.

import (
	"fmt"
	"go/types"
	"regexp"
	"regexp/syntax"
	"unicode"
)

type rxMatcher struct {
	i     *interpreter
	runes []value // int32 or sym(Int32)
	offs  []int   // byte offset of each rune, plus the total length at the end
	caps  []int   // capture boundaries in rune indices (2 per group), -1 = unset
	steps int
}

func (i *interpreter) newRxMatcher(subj value) *rxMatcher {
	m := &rxMatcher{i: i}
	c := strCells(subj)
	for pos := 0; pos < len(c); {
		r, n := i.decodeRune(c[pos:])
		m.runes = append(m.runes, r)
		m.offs = append(m.offs, pos)
		pos += n
	}
	m.offs = append(m.offs, len(c))
	return m
}

// inClass returns a Bool value: rune r is in the class given as lo-hi pairs.
func (m *rxMatcher) inClass(r value, pairs []rune) value {
	s, ok := r.(sym)
	if !ok {
		x := r.(int32)
		for j := 0; j+1 < len(pairs); j += 2 {
			if pairs[j] <= x && x <= pairs[j+1] {
				return true
			}
		}
		return false
	}
	tb := m.i.px.tb
	acc := tb.ff
	for j := 0; j+1 < len(pairs); j += 2 {
		lo, hi := pairs[j], pairs[j+1]
		if lo == hi {
			acc = tb.or(acc, tb.eq(s.t, tb.bv(uint64(lo), 32)))
		} else {
			acc = tb.or(acc, rng(tb, s.t, lo, hi))
		}
	}
	return mkSym(acc, types.Bool)
}

func (m *rxMatcher) match(re *syntax.Regexp, pos int, k func(int) bool) bool {
	m.steps++
	if m.steps > 200000 {
		panic(engineError{"regexp model: step budget exceeded"})
	}
	switch re.Op {
	case syntax.OpNoMatch:
		return false
	case syntax.OpEmptyMatch:
		return k(pos)
	case syntax.OpLiteral:
		return m.lit(re, 0, pos, k)
	case syntax.OpCharClass:
		if pos >= len(m.runes) {
			return false
		}
		if !m.i.decide(m.inClass(m.runes[pos], re.Rune)) {
			return false
		}
		return k(pos + 1)
	case syntax.OpAnyChar:
		if pos >= len(m.runes) {
			return false
		}
		return k(pos + 1)
	case syntax.OpAnyCharNotNL:
		if pos >= len(m.runes) {
			return false
		}
		if m.i.scalarEq(m.runes[pos], int32('\n')) {
			return false
		}
		return k(pos + 1)
	case syntax.OpBeginText:
		if pos != 0 {
			return false
		}
		return k(pos)
	case syntax.OpEndText:
		if pos != len(m.runes) {
			return false
		}
		return k(pos)
	case syntax.OpBeginLine:
		if pos == 0 || m.i.scalarEq(m.runes[pos-1], int32('\n')) {
			return k(pos)
		}
		return false
	case syntax.OpEndLine:
		if pos == len(m.runes) || m.i.scalarEq(m.runes[pos], int32('\n')) {
			return k(pos)
		}
		return false
	case syntax.OpCapture:
		s0, s1 := m.caps[2*re.Cap], m.caps[2*re.Cap+1]
		return m.match(re.Sub[0], pos, func(e int) bool {
			o0, o1 := m.caps[2*re.Cap], m.caps[2*re.Cap+1]
			m.caps[2*re.Cap], m.caps[2*re.Cap+1] = pos, e
			if k(e) {
				return true
			}
			m.caps[2*re.Cap], m.caps[2*re.Cap+1] = o0, o1
			return false
		}) || func() bool { m.caps[2*re.Cap], m.caps[2*re.Cap+1] = s0, s1; return false }()
	case syntax.OpConcat:
		return m.concat(re.Sub, pos, k)
	case syntax.OpAlternate:
		for _, sub := range re.Sub {
			if m.match(sub, pos, k) {
				return true
			}
		}
		return false
	case syntax.OpQuest:
		if re.Flags&syntax.NonGreedy != 0 {
			return k(pos) || m.match(re.Sub[0], pos, k)
		}
		return m.match(re.Sub[0], pos, k) || k(pos)
	case syntax.OpStar:
		return m.star(re, pos, k)
	case syntax.OpPlus:
		return m.match(re.Sub[0], pos, func(e int) bool {
			if e == pos {
				return k(e)
			}
			return m.star(re, e, k)
		})
	}
	panic(engineError{fmt.Sprintf("regexp model: unsupported op %v", re.Op)})
}

func (m *rxMatcher) star(re *syntax.Regexp, pos int, k func(int) bool) bool {
	more := func() bool {
		return m.match(re.Sub[0], pos, func(e int) bool {
			if e == pos {
				return false // no progress: do not loop on the empty string
			}
			return m.star(re, e, k)
		})
	}
	if re.Flags&syntax.NonGreedy != 0 {
		return k(pos) || more()
	}
	return more() || k(pos)
}

func (m *rxMatcher) concat(subs []*syntax.Regexp, pos int, k func(int) bool) bool {
	if len(subs) == 0 {
		return k(pos)
	}
	return m.match(subs[0], pos, func(e int) bool { return m.concat(subs[1:], e, k) })
}

func (m *rxMatcher) lit(re *syntax.Regexp, idx, pos int, k func(int) bool) bool {
	if idx == len(re.Rune) {
		return k(pos)
	}
	if pos >= len(m.runes) {
		return false
	}
	want := re.Rune[idx]
	var ok bool
	if re.Flags&syntax.FoldCase != 0 {
		pairs := []rune{want, want}
		for f := unicode.SimpleFold(want); f != want; f = unicode.SimpleFold(f) {
			pairs = append(pairs, f, f)
		}
		ok = m.i.decide(m.inClass(m.runes[pos], pairs))
	} else {
		ok = m.i.scalarEq(m.runes[pos], int32(want))
	}
	if !ok {
		return false
	}
	return m.lit(re, idx+1, pos+1, k)
}

// rxFind returns the leftmost-first submatches of re in subj as byte ranges
// (pairs, -1 = unset), or nil.
func (i *interpreter) rxFind(re *regexp.Regexp, subj value) []int {
	tree, err := syntax.Parse(re.String(), syntax.Perl)
	if err != nil {
		panic(engineError{"regexp model: cannot re-parse " + re.String()})
	}
	ncap := tree.MaxCap()
	tree = tree.Simplify()
	m := i.newRxMatcher(subj)
	for start := 0; start <= len(m.runes); start++ {
		m.caps = make([]int, 2*(ncap+1))
		for j := range m.caps {
			m.caps[j] = -1
		}
		var end int
		if m.match(tree, start, func(e int) bool { end = e; return true }) {
			m.caps[0], m.caps[1] = start, end
			out := make([]int, len(m.caps))
			for j, c := range m.caps {
				if c < 0 {
					out[j] = -1
				} else {
					out[j] = m.offs[c]
				}
			}
			return out
		}
	}
	return nil
}

// SelfTestRegex compares the model with the real regexp package on concrete
// subjects. It returns the number of cases and the disagreements.
func SelfTestRegex(regexes, subjects []string) (int, []string) {
	i := &interpreter{px: &pathCtx{tb: newTermTable()}}
	n := 0
	var bad []string
	for _, src := range regexes {
		re, err := regexp.Compile(src)
		if err != nil {
			continue
		}
		for _, s := range subjects {
			n++
			want := re.FindStringSubmatchIndex(s)
			got := i.rxFind(re, s)
			if fmt.Sprint(want) != fmt.Sprint(got) && !(want == nil && got == nil) {
				bad = append(bad, fmt.Sprintf("regex %q subject %q: regexp=%v model=%v", src, s, want, got))
			}
		}
	}
	return n, bad
}
