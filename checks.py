"""Registry of checks: which gosx harnesses decide which property, per tier.

Every entry of a tier list is one harness run:
  harness   exported niladic function of verifharness/h
  panicnil  list of modelled GODEBUG panicnil values (default [1])
  cover     nd.Cover labels that at least one path must reach (vacuity guard)
  bounds    human-readable statement of the bound (goes into evidence)
  budget / max_paths / timeout / samples / per_key: engine flags
"""

ASSUMPTIONS = [
    "GOARCH=amd64 (int = 64 bit); go/ssa v0.29.0 translation of /repo's current working tree is faithful",
    "instruction semantics of the adapted x/tools go/ssa/interp plus gosx's symbolic layer (validated by native replay of sampled passing paths and of every counterexample)",
    "symbolic runes range over D = ASCII ∪ {é 世 𝒳 ٣ U+00A0 U+0085 U+3000 × U+FFFD U+10FFFF}; symbolic bytes over ASCII; other code points are outside the claim",
    "std boundary: strings.Builder/strings.*/utf8.*/unicode.Is*/strconv/sync/atomic are engine models (DESIGN §2.5); bufio, strings.Reader, bytes.Reader, errors are interpreted from std source",
    "goroutines run under a deterministic baton scheduler (run until blocked, FIFO) unless the harness enables schedule mode",
    "z3 4.8.12 verdicts; any unknown / (error line makes the run inconclusive (exit 2), never a pass",
]

D = "runes over D (ASCII + 10 non-ASCII representatives)"

CHECKS = {
    "C01": {
        "quick": [
            dict(harness="C01_F1", panicnil=[0, 1], cover=["accepted", "rejected"], bounds="all inputs of exactly 1 rune over D"),
            dict(harness="C01_F2", panicnil=[0, 1], cover=["accepted", "rejected"], bounds="all inputs of exactly 2 " + D),
            dict(harness="C01_F3", panicnil=[0, 1], cover=["accepted", "rejected"], bounds="all inputs of exactly 3 " + D),
            dict(harness="C01_T1", panicnil=[1], cover=["accepted", "rejected"], bounds="65 templates x every position replaced by one symbolic rune over D"),
            dict(harness="C01_AliasQ", cover=["accepted"], bounds="alias a = one free ASCII byte (+ optional blank), alias b = x, input 'a b; a'"),
            dict(harness="C01_Err", panicnil=[0, 1], bounds="10 ill-formed programs whose error arrives while a here-document, substitution, quote or comment is pending"),
            dict(harness="C01_Err1", panicnil=[1], bounds="the same 10 programs x one symbolic hole over D"),
            dict(harness="C01_Sources", bounds="65 concrete templates through string/[]byte/bufio.Reader/io.Reader"),
        ],
        "thorough": [
            dict(harness="C01_F1", panicnil=[0, 1], cover=["accepted", "rejected"]),
            dict(harness="C01_F2", panicnil=[0, 1], cover=["accepted", "rejected"]),
            dict(harness="C01_F3", panicnil=[0, 1], cover=["accepted", "rejected"]),
            dict(harness="C01_F4", panicnil=[1], cover=["accepted", "rejected"], bounds="all inputs of exactly 4 " + D),
            dict(harness="C01_T1", panicnil=[0, 1], cover=["accepted", "rejected"]),
            dict(harness="C01_T2", panicnil=[1], bounds="65 templates x every adjacent pair replaced by 2 symbolic ASCII runes"),
            dict(harness="C01_Ins1", panicnil=[1], bounds="65 templates x one symbolic rune inserted at every position"),
            dict(harness="C01_Alias", panicnil=[1], cover=["accepted"], bounds="alias table {a: 2 free bytes[+blank], b: 1 free byte[+blank]} x 2 free runes of {a b blank ; newline} + ' a b'"),
            dict(harness="C01_Err", panicnil=[0, 1]),
            dict(harness="C01_Err1", panicnil=[0, 1]),
            dict(harness="C01_Sources"),
        ],
    },
    "C02": {
        "quick": [
            dict(harness="C02_D1B2", bounds="derivations of depth 1 with at most 2 non-default productions (every production and every pair of productions of: 12 word forms, 7 simple-command shapes, 12 command kinds, pipelines, !, && ||, ; & lists, single-line and multi-line layout); the first character of every word and of every name is symbolic"),
            dict(harness="C02_D2B2", cover=["arith-in-parentheses"], bounds="derivations of depth 2 with at most 2 non-default productions"),
            dict(harness="C02_Reserved", bounds="16 reserved words x {argument, for item, case pattern, redirection target, assignment value, case word}"),
            dict(harness="C02_Closers", bounds="16 programs with a reserved word directly after ) } fi done esac, against the same text with a separator"),
            dict(harness="C02_Ref_F3", cover=["ref-complete", "ref-rejects"], bounds="differential against the independent recogniser refparse: every 3-rune input over D that the recogniser classifies as a complete command is accepted and consumed exactly"),
            dict(harness="C02_Ref_T1", cover=["ref-complete", "ref-rejects"], bounds="same differential on 65 templates x one symbolic hole"),
            dict(harness="C02_Cross", bounds="14 cross-construct programs (parenthesis bookkeeping of case patterns, subshells, function definitions, substitutions vs the (( )) command), each against an equivalent spelling"),
            dict(harness="C02_Prefix", bounds="every prefix of every template, error template and here-document site (programs cut in the middle of a construct) against the recogniser: complete => accepted and consumed exactly"),
        ],
        "thorough": [
            dict(harness="C02_D1B2"),
            dict(harness="C02_D2B2", cover=["arith-in-parentheses"]),
            dict(harness="C02_D2B3", cover=["arith-in-parentheses"], bounds="derivations of depth 2 with at most 3 non-default productions", timeout="40m"),
            dict(harness="C02_Reserved"),
            dict(harness="C02_Closers"),
            dict(harness="C02_Cross"),
            dict(harness="C02_Prefix"),
            dict(harness="C02_Ref_F3", cover=["ref-complete", "ref-rejects"]),
            dict(harness="C02_Ref_F4", cover=["ref-complete", "ref-rejects"], bounds="same differential on every 4-rune ASCII input"),
            dict(harness="C02_Ref_T1", cover=["ref-complete", "ref-rejects"]),
        ],
    },
    "C03": {
        "quick": [
            dict(harness="C03_Negative", bounds="82 hand-written ill-formed programs (unbalanced / misplaced reserved words and operators, missing operands, unterminated quotes, expansions and here-documents, bad for/case/function syntax)"),
            dict(harness="C03_Damage", cover=["deleted-reserved-word", "duplicated-operator", "stray-at-start", "operator-at-end"], bounds="generated single-line derivations (depth 2, at most 2 non-default productions) x one damage that makes them ill-formed by construction (delete a closing / opening reserved word, duplicate an operator, operator or stray closer at the start, binary operator at the end) x every applicable position"),
            dict(harness="C03_Loc_F3", cover=["accepted", "rejected"], bounds="all 3-rune inputs over D: error location on rejecting paths, character conservation on accepting paths"),
            dict(harness="C03_Loc_T1", cover=["accepted", "rejected"], bounds="65 templates x one symbolic hole over D"),
            dict(harness="C03_Ref_F3", cover=["ref-complete", "ref-rejects"], bounds="differential against the independent recogniser refparse: every 3-rune input over D that the recogniser does not classify as a complete command is rejected"),
            dict(harness="C03_Ref_T1", cover=["ref-complete", "ref-rejects"], bounds="same differential on 65 templates x one symbolic hole"),
            dict(harness="C03_Ref_Gen", bounds="the recogniser and the parser against the derivation generator (depth 2, budget 2, single line): both accept every derivation"),
            dict(harness="C03_Prefix", bounds="every prefix of every template, error template and here-document site (1659 programs cut in the middle of a construct, incl. right after a here-document delimiter) against the recogniser: ill-formed or incomplete => rejected"),
        ],
        "thorough": [
            dict(harness="C03_Ref_F3", cover=["ref-complete", "ref-rejects"]),
            dict(harness="C03_Ref_F4", cover=["ref-complete", "ref-rejects"], bounds="same differential on every 4-rune ASCII input"),
            dict(harness="C03_Ref_T1", cover=["ref-complete", "ref-rejects"]),
            dict(harness="C03_Ref_Gen"),
            dict(harness="C03_Prefix"),
            dict(harness="C03_Negative"),
            dict(harness="C03_Damage", cover=["deleted-reserved-word", "duplicated-operator", "stray-at-start", "operator-at-end"]),
            dict(harness="C03_Loc_F2", cover=["accepted", "rejected"]),
            dict(harness="C03_Loc_F3", cover=["accepted", "rejected"]),
            dict(harness="C03_Loc_F4", cover=["accepted", "rejected"], bounds="all 4-rune ASCII inputs"),
            dict(harness="C03_Loc_T1", cover=["accepted", "rejected"]),
        ],
    },
    "C04": {
        "quick": [
            dict(harness="C04_T0", cover=["accepted"], bounds="65 concrete templates"),
            dict(harness="Conf_ParserCorpus", samples=300, bounds="translation validation: the 252 source literals of the repository's parser tests, concretely, engine vs native (error, skeleton, Pos/End of every node, comments, printed text must be identical)"),
            dict(harness="C04_F3", cover=["accepted", "rejected"], bounds="accepted inputs among all 3-rune strings over D: every position field spells its token, nesting and order"),
            dict(harness="C04_T1", cover=["accepted"], bounds="65 templates x one symbolic hole over D"),
        ],
        "thorough": [
            dict(harness="C04_T0", cover=["accepted"]),
            dict(harness="C04_F2", cover=["accepted", "rejected"]),
            dict(harness="C04_F3", cover=["accepted", "rejected"]),
            dict(harness="C04_F4", cover=["accepted", "rejected"], bounds="accepted inputs among all 4-rune ASCII strings"),
            dict(harness="C04_T1", cover=["accepted"]),
        ],
    },
    "C05": {
        "quick": [
            dict(harness="C05_T0", cover=["accepted"], bounds="65 concrete templates x symbolic Config (5 x 64-bit Style, Case, Width 0..8)"),
            dict(harness="C05_F2", cover=["accepted"], bounds="accepted inputs among all 2-rune strings over D x symbolic Config"),
            dict(harness="C05_F3", cover=["accepted", "lone-backslash"], bounds="accepted inputs among all 3-rune strings over D x symbolic Config"),
            dict(harness="C05_G12", cover=["accepted"], bounds="generated derivations of depth 1 with at most 2 non-default productions (C02's generator, single- and multi-line) x symbolic Config"),
        ],
        "thorough": [
            dict(harness="C05_G12", cover=["accepted"]),
            dict(harness="C05_G2", cover=["accepted"], bounds="generated derivations of depth 2 with at most 2 non-default productions x symbolic Config", timeout="40m"),
            dict(harness="C05_T0", cover=["accepted"]),
            dict(harness="C05_F2", cover=["accepted"]),
            dict(harness="C05_F3", cover=["accepted", "lone-backslash"]),
            dict(harness="C05_T1", cover=["accepted"], bounds="65 templates x one symbolic hole over D x symbolic Config"),
            dict(harness="C05_Default", bounds="65 templates x one symbolic hole, default Fprint configuration"),
        ],
    },
    "C18": {
        "quick": [
            dict(harness="C18_T0", cover=["accepted", "write-fault"], bounds="65 concrete templates x symbolic Config x writer failing after k bytes (k symbolic)"),
            dict(harness="C18_F2", cover=["accepted", "write-fault"], bounds="accepted 2-rune inputs x symbolic Config x symbolic write-fault offset"),
            dict(harness="C18_F3", cover=["accepted", "write-fault"], bounds="accepted 3-rune inputs x symbolic Config x symbolic write-fault offset"),
            dict(harness="C18_G1", cover=["accepted", "write-fault"], bounds="generated derivations of depth 1 with at most 1 non-default production x symbolic Config x symbolic write-fault offset"),
        ],
        "thorough": [
            dict(harness="C18_G12", cover=["accepted", "write-fault"], bounds="generated derivations of depth 1, at most 2 non-default productions"),
            dict(harness="C18_T0", cover=["accepted", "write-fault"]),
            dict(harness="C18_F2", cover=["accepted", "write-fault"]),
            dict(harness="C18_F3", cover=["accepted", "write-fault"]),
            dict(harness="C18_T1", cover=["accepted", "write-fault"], bounds="65 templates x one symbolic hole x symbolic Config x symbolic write-fault offset"),
        ],
    },
    "C06": {
        "quick": [
            dict(harness="C06_Parse_P1", sched=True, bounds="14 sources (valid, one error, parser error then lexer error, here-documents, nested substitutions, unterminated constructs) x every schedule with at most 1 preemption (plus every choice among runnable goroutines and ready select cases)"),
            dict(harness="C06_Parse_P2", sched=True, bounds="same sources x every schedule with at most 2 preemptions"),
            dict(harness="C06_Parse_F2", sched=True, bounds="all 2-rune ASCII inputs x every schedule with at most 1 preemption"),
            dict(harness="C06_Eval_P2", sched=True, bounds="9 arithmetic expressions (several errors, assignments, lexical errors) x every schedule with at most 2 preemptions"),
            dict(harness="C06_Err_P1", sched=True, bounds="10 ill-formed programs with a pending here-document / substitution / comment at the error x every schedule with at most 1 preemption"),
        ],
        "thorough": [
            dict(harness="C06_Parse_P1", sched=True),
            dict(harness="C06_Parse_P2", sched=True),
            dict(harness="C06_Parse_P3", sched=True, bounds="same sources x every schedule with at most 3 preemptions", timeout="40m"),
            dict(harness="C06_Parse_F2", sched=True),
            dict(harness="C06_Eval_P2", sched=True),
            dict(harness="C06_Err_P1", sched=True),
            dict(harness="C06_Err_P2", sched=True, bounds="same x at most 2 preemptions"),
            dict(harness="C06_Eval_P3", sched=True, bounds="9 expressions x at most 3 preemptions"),
        ],
    },
    "C07": {
        "quick": [
            dict(harness="C07_T0", cover=["complete"], bounds="65 concrete templates as first command, followed by a second command"),
            dict(harness="C07_F3", cover=["complete", "comment-only"], bounds="every 3-rune input over D that is a complete command on its own, followed by a second command"),
            dict(harness="C07_T1", cover=["complete"], bounds="65 templates x one symbolic hole, followed by a second command"),
            dict(harness="C07_Blank", bounds="1..3 blank lines (optionally with one symbolic blank) before a command"),
            dict(harness="C07_Ref_T1", cover=["stream-consumed"], bounds="templates x one symbolic hole + a second command: the stream is cut by the independent recogniser; every successive call must stop exactly at its cuts"),
            dict(harness="C07_Ref_F3", cover=["stream-consumed"], bounds="same for every 3-rune input over D + a second command"),
        ],
        "thorough": [
            dict(harness="C07_T0", cover=["complete"]),
            dict(harness="C07_F2", cover=["complete"]),
            dict(harness="C07_F3", cover=["complete", "comment-only"]),
            dict(harness="C07_T1", cover=["complete"]),
            dict(harness="C07_Blank"),
            dict(harness="C07_Ref_T1", cover=["stream-consumed"]),
            dict(harness="C07_Ref_F3", cover=["stream-consumed"]),
        ],
    },
    "C08": {
        "quick": [
            dict(harness="C08_K2", cover=["accepted", "expansion", "unterminated"], bounds="14 here-document sites (<< and <<-, unquoted/'..'/\\/\"..\"/partially quoted delimiters, two here-documents on a line, inside if/{ }/while/$( )/( )) x bodies of 2 symbolic runes over {a E tab newline $ \\ blank} x last delimiter line present/missing"),
            dict(harness="C08_K3", cover=["accepted", "expansion", "unterminated"], bounds="same sites x bodies of 3 symbolic runes"),
        ],
        "thorough": [
            dict(harness="C08_K2", cover=["accepted", "expansion", "unterminated"]),
            dict(harness="C08_K3", cover=["accepted", "expansion", "unterminated"]),
            dict(harness="C08_K4", cover=["accepted", "expansion", "unterminated"], bounds="same sites x bodies of 4 symbolic runes", timeout="40m"),
        ],
    },
    "C09": {
        "quick": [
            dict(harness="C09_Layout", cover=["extra-blank", "continuation", "newline-for-semicolon", "comment-before-newline", "blank-line", "comment-line", "comment-at-end"],
                 bounds="25 layout templates (every construct) x every marked token boundary x {extra blank, tab, backslash-newline, newline for ;, comment before newline, blank line, comment line, comment/newline/blank at end}; inserted blanks and comment text (2 runes over D) symbolic"),
        ],
    },
    "C10": {
        "quick": [
            dict(harness="C10_F2", cover=["fault", "fault-not-reached"], bounds="all 2-rune inputs over D x every fault position k in [0,2] (k symbolic)"),
            dict(harness="C10_F3", cover=["fault", "fault-not-reached"], bounds="all 3-rune ASCII inputs x every fault position k in [0,3] (k symbolic)"),
            dict(harness="C10_T0", cover=["fault"], bounds="65 concrete templates x every fault position (k symbolic)"),
            dict(harness="C10_Reader", cover=["fault"], bounds="65 concrete templates delivered by an io.Reader (raw and through bufio.Reader) failing after every byte count"),
            dict(harness="C10_Transient_T0", cover=["fault"], bounds="templates x one transient failure at every position (the scanner fails once, then continues to deliver the text)"),
            dict(harness="C10_Transient_F3", cover=["fault"], bounds="all 3-rune ASCII inputs x one transient failure at every position"),
        ],
        "thorough": [
            dict(harness="C10_F2", cover=["fault", "fault-not-reached"]),
            dict(harness="C10_F3", cover=["fault", "fault-not-reached"]),
            dict(harness="C10_T0", cover=["fault"]),
            dict(harness="C10_T1", cover=["fault"], bounds="65 templates x one symbolic hole x every fault position"),
            dict(harness="C10_Reader", cover=["fault"]),
            dict(harness="C10_Transient_T0", cover=["fault"]),
            dict(harness="C10_Transient_F3", cover=["fault"]),
        ],
    },
    "C11": {
        "quick": [
            dict(harness="C11_D1", cover=["value", "fault", "lazy", "badlit-skipped"], bounds="every operator variant (4 unary, 16 binary, && || ?:, 11 assignments x 3 lvalue forms, ++/-- prefix/postfix) over operands {a b x symbolic int64; u unset; e empty; o=010; h=0x1F; g=1z; literals 0 1 7 010 0x1F MaxInt64 08 0x}"),
            dict(harness="C11_D2", cover=["value", "fault", "lazy"], bounds="all ordered pairs of the 38 operator variants x inner-operand position x redundant parentheses; inner operands a b (symbolic int64), outer operands 3 5"),
            dict(harness="C11_Expand", bounds="the 38 depth-1 shapes through ParseCommands + Expand($((...)))"),
            dict(harness="C11_Const", cover=["numeral", "identifier", "malformed"], bounds="numerals: prefix {none, 0, 0x, 0X, 1, 7} + 2 symbolic bytes over {0 1 8 9 a f g x z _ blank} against C's numeral grammar"),
            dict(harness="Conf_ArithCorpus", samples=300, bounds="translation validation: the 255 expression literals of the repository's arithmetic tests, concretely, engine vs native (value, error, variables must be identical)"),
        ],
        "thorough": [
            dict(harness="C11_D1", cover=["value", "fault", "lazy", "badlit-skipped"]),
            dict(harness="C11_D2", cover=["value", "fault", "lazy"]),
            dict(harness="C11_D3", cover=["value", "fault"], bounds="three nested operators from {* / + - << < == & |, unary + - ~ !} in every nesting position, inner operands a b (symbolic int64), redundant parentheses optional"),
            dict(harness="C11_Const", cover=["numeral", "identifier", "malformed"], bounds="numerals: prefix {none, 0, 0x, 0X, 1, 7} + 2 symbolic bytes over {0 1 8 9 a f g x z _ blank} against C's numeral grammar"),
            dict(harness="C11_Expand"),
            dict(harness="Conf_ArithCorpus", samples=300),
        ],
    },
    "C12": {
        "quick": [
            dict(harness="C12_K1L2", cover=["match", "nomatch", "malformed"], bounds="every 1-symbol pattern over {a b * ? [ ] ! ^ - \\ . newline + ( ) | { } $} x subjects of 2 symbolic bytes (+ optional é at any position) x 4 modes"),
            dict(harness="C12_K2L2", cover=["match", "nomatch", "malformed"], bounds="every 2-symbol pattern over the 12-symbol alphabet x subjects of 2 symbolic bytes (+ optional é) x 4 modes"),
            dict(harness="C12_K3L2", cover=["match", "nomatch", "malformed"], bounds="every 3-symbol pattern x subjects of 2 symbolic bytes x 4 modes"),
            dict(harness="C12_K5L2", cover=["match", "nomatch", "malformed"], bounds="every 5-symbol pattern over {[ a * ] .} x subjects of 2 symbolic bytes x 4 modes"),
            dict(harness="C12_Class", bounds="9 bracket patterns with [:alpha:], ranges, escapes x subjects of 2 symbolic bytes (+ optional é) x 4 modes"),
            dict(harness="C12_Two", bounds="two patterns (2 and 1 symbols over {a b * ?}) x subjects of 2 symbolic bytes; Prefix|Suffix"),
        ],
        "thorough": [
            dict(harness="C12_K1L2", cover=["match", "nomatch", "malformed"]),
            dict(harness="C12_K2L2", cover=["match", "nomatch", "malformed"]),
            dict(harness="C12_K3L2", cover=["match", "nomatch", "malformed"]),
            dict(harness="C12_K3L3", cover=["match", "nomatch", "malformed"], bounds="every 3-symbol pattern x subjects of 3 symbolic bytes x 4 modes"),
            dict(harness="C12_K4L3", cover=["match", "nomatch", "malformed"], bounds="every 4-symbol pattern over {a b * ? [ ] ! - \\} x subjects of 3 symbolic bytes x 4 modes"),
            dict(harness="C12_K5L2", cover=["match", "nomatch", "malformed"]),
            dict(harness="C12_Class"),
            dict(harness="C12_Two"),
        ],
    },
    "C13": {
        "quick": [
            dict(harness="C13_Table", cover=["fail", "assign", "assign-positional"], bounds="8 table operators x {unset,null,non-null} x {variable, positional} x {unquoted, double-quoted} x nounset on/off; value 2 symbolic bytes, word 0..2 symbolic bytes followed by a nested ${q=}"),
            dict(harness="C13_Plain", cover=["nounset-error"], bounds="$p ${p} ${#p} x {variable, positional} x 3 states x nounset on/off, value 2 symbolic bytes"),
            dict(harness="C13_Length", bounds="${#p} on a value with 2- and 3-byte characters and one symbolic byte"),
            dict(harness="C13_Special", bounds="8 special parameters x 0..2 positional parameters of 1 symbolic byte: read, ${sp:=w}, Set"),
            dict(harness="C13_IFSJoin", bounds="\"$*\" with 2 positional parameters of 1 symbolic byte x IFS {2 symbolic bytes, empty, unset}"),
            dict(harness="C13_PosName", bounds="names of 1,2,3,18,19,20,21 digits (two leading digits symbolic, the rest nines) are positional parameters: unset beyond Args, not assignable by Set or :=; strconv.Atoi/ParseInt interpreted from std source on the symbolic digits"),
            dict(harness="C13_Trim", bounds="% %% # ## x values of 3 bytes over {a,b} x 9 patterns x quoted/unquoted pattern"),
        ],
    },
    "C14": {
        "quick": [
            dict(harness="C14_S2", cover=["ifs-unset", "ifs-empty", "ifs-default", "ifs-symbolic"], bounds="words of 2 segments (0..2 symbolic bytes each, quoted or not) x IFS {unset, empty, default, 1..2 symbolic bytes}"),
            dict(harness="C14_S3", cover=["ifs-unset", "ifs-empty", "ifs-default", "ifs-symbolic"], bounds="words of 3 segments (0..2 symbolic bytes each, quoted or not) x IFS {unset, empty, default, 1..2 symbolic bytes}"),
            dict(harness="C14_Multibyte", bounds="IFS = é, word with unquoted and quoted é and one symbolic byte"),
        ],
        "thorough": [
            dict(harness="C14_S2", cover=["ifs-unset", "ifs-empty", "ifs-default", "ifs-symbolic"]),
            dict(harness="C14_S3", cover=["ifs-unset", "ifs-empty", "ifs-default", "ifs-symbolic"]),
            dict(harness="C14_S4", cover=["ifs-symbolic"], bounds="words of 4 segments (0..1 symbolic byte) x IFS up to 3 symbolic bytes"),
            dict(harness="C14_S6", cover=["ifs-symbolic"], bounds="words of 6 segments (0..1 symbolic byte) x IFS up to 2 symbolic bytes"),
            dict(harness="C14_Multibyte"),
        ],
    },
    "C15": {
        "quick": [
            dict(harness="C15_N1", cover=["literal", "pattern"], bounds="s = 1 symbolic rune over D x 4 quoting styles x 6 ExpModes; IFS = 2 symbolic bytes, HOME, 2 positional parameters, directory {zz, a, d/}"),
            dict(harness="C15_N2", cover=["literal", "pattern"], bounds="s = 2 symbolic runes over D x 4 quoting styles x 6 ExpModes; same environment"),
        ],
        "thorough": [
            dict(harness="C15_N1", cover=["literal", "pattern"]),
            dict(harness="C15_N2", cover=["literal", "pattern"]),
            dict(harness="C15_N3", cover=["literal", "pattern"], bounds="s = 3 symbolic ASCII runes x 4 styles x 6 modes"),
        ],
    },
    "C20": {
        "quick": [
            dict(harness="C20_H1", bounds="histories of 1 operation over 7 operation kinds x 11 names; values 1 symbolic byte, arithmetic operand symbolic int64"),
            dict(harness="C20_H2", cover=["set", "unset", "assign-default", "error", "arith-assign", "arith-inc"], bounds="histories of 2 operations"),
            dict(harness="C20_H1Sym", bounds="histories of 1 operation with an additional name of 2 symbolic bytes"),
        ],
        "thorough": [
            dict(harness="C20_H1"),
            dict(harness="C20_H2", cover=["set", "unset", "assign-default", "error", "arith-assign", "arith-inc"]),
            dict(harness="C20_H3", bounds="histories of 3 operations"),
            dict(harness="C20_H1Sym"),
            dict(harness="C20_H2Sym", bounds="histories of 2 operations with an additional symbolic name"),
        ],
    },
    "C16": {
        "quick": [
            dict(harness="C16_K2E2", cover=["matches", "empty", "malformed"], bounds="every 2-symbol relative pattern over {a . * ? [ ] \\ /} x working directory with 2 entries (name = 1 symbolic byte over {a . * b}, kind file/dir/dangling link, directories get one child)"),
            dict(harness="C16_K3E2", cover=["matches", "empty"], bounds="every 3-symbol relative pattern over {a . * ? /} x 2 entries (names over {a . b})"),
            dict(harness="C16_K3E3", cover=["matches", "empty", "malformed"], bounds="every 3-symbol relative pattern over {a . * ? [ ] \\ /} x 3 entries (names over {a . * b})"),
        ],
        "thorough": [
            dict(harness="C16_K2E2", cover=["matches", "empty", "malformed"]),
            dict(harness="C16_K3E2", cover=["matches", "empty"]),
            dict(harness="C16_K3E3", cover=["matches", "empty", "malformed"]),
            dict(harness="C16_K4E2", cover=["matches", "empty"], bounds="every 4-symbol relative pattern over {a . * ? /} x 2 entries"),
        ],
    },
    "C17": {
        "quick": [
            dict(harness="C17_Fold1", cover=["unfolded-well-formed", "unfolded-ill-formed"], bounds="alias tables a x b from 14 x 6 values (several tokens, operators, reserved words, assignments, redirections, trailing blanks, chains, cycles) x one command (6 command words incl. quoted/escaped/assignment-prefixed names, 3 arguments) x {bare, if, { }, for}"),
            dict(harness="C17_Sym", bounds="alias values, command word and two following words are symbolic letters over {a b z/t/x/y/w} with optional trailing blank: all coincidences with the alias names decided by the solver"),
        ],
        "thorough": [
            dict(harness="C17_Fold1", cover=["unfolded-well-formed", "unfolded-ill-formed"]),
            dict(harness="C17_Fold", cover=["unfolded-well-formed", "unfolded-ill-formed"], bounds="same tables x one or two commands joined by ; | newline"),
            dict(harness="C17_Sym"),
        ],
    },
    "C19": {
        "quick": [
            dict(harness="C19_Option", bounds="all 2^64 Option values"),
            dict(harness="C19_Measure_F3", cover=["accepted", "rejected"], bounds="accepted inputs among all 3-rune strings over D: Pos/End of every node and comment"),
            dict(harness="C19_Print_F3", cover=["accepted"], bounds="accepted inputs among all 3-rune strings over D x symbolic Config (5 x 64-bit Style, Case, Width 0..8)"),
            dict(harness="C19_Expand_F2", cover=["accepted"], bounds="accepted inputs among all 2-rune strings over D x all 2^64 ExpMode x all 2^64 Option values, Args={sh,p1,''}"),
            dict(harness="C19_Measure_T1", cover=["accepted"], bounds="65 templates x one symbolic hole"),
            dict(harness="C19_Expand_T0Q", cover=["accepted"], bounds="65 concrete templates x 6 documented ExpModes x NoGlob|NoUnset on/off x {0,1,2} positional parameters"),
            dict(harness="C19_Deep", bounds="8 kinds of multi-line compound constructs nested 1, 5, 9 and 12 levels deep (optionally inside a brace group) x 4 printer configurations: measured, printed, re-parsed"),
            dict(harness="C19_Eval_F2", cover=["error", "value"], bounds="Eval of all 2-rune strings over D"),
            dict(harness="C19_Match_22", bounds="patterns of 2 symbols over {a b * ? [ ] ! ^ - \\ . newline} x subjects of 2 over {a b - ] . newline} x all Mode values"),
            dict(harness="C19_Glob_3", bounds="Glob of all 3-symbol patterns over {a * ? [ ] \\ / .} on an empty file system"),
        ],
        "thorough": [
            dict(harness="C19_Option"),
            dict(harness="C19_Measure_F3", cover=["accepted", "rejected"]),
            dict(harness="C19_Measure_F4", cover=["accepted", "rejected"], bounds="all 4-rune ASCII strings"),
            dict(harness="C19_Print_F3", cover=["accepted"]),
            dict(harness="C19_Expand_F2", cover=["accepted"]),
            dict(harness="C19_Expand_F3", cover=["accepted"], bounds="all 3-rune ASCII strings x all ExpMode/Option bit patterns"),
            dict(harness="C19_Expand_T0", cover=["accepted"], bounds="65 concrete templates x all ExpMode/Option bit patterns"),
            dict(harness="C19_Expand_T1", cover=["accepted"], bounds="65 templates x one symbolic hole x 6 documented modes x NoGlob|NoUnset on/off"),
            dict(harness="C19_Measure_T1", cover=["accepted"]),
            dict(harness="C19_Print_T1", cover=["accepted"], bounds="65 templates x one symbolic hole x symbolic Config"),
            dict(harness="C19_Eval_F3", cover=["error", "value"], bounds="Eval of all 3-rune strings over D"),
            dict(harness="C19_Match_32", bounds="patterns of 3 symbols x subjects of 2 x all Mode values"),
            dict(harness="C19_Glob_3"),
        ],
    },
}

BOUNDED = ("holds for every input inside the stated bounds (the solver decides each data-dependent branch and assertion for all values; "
           "paths are enumerated exhaustively by decision-prefix re-execution); says nothing beyond the bounds")

META = {
    "C01": dict(text="Totality of ParseCommands within bounds: every feasible path of the real lexer/parser SSA over N free runes (N<=3 quick, 4 thorough), "
                     "over every template with symbolic holes, with symbolic alias tables, under panicnil 0 and 1, ends without caller panic, background-goroutine death, deadlock or budget overrun. " + BOUNDED,
                note="inputs longer than the bounds, code points outside D and the std decoders behind string/[]byte/io.Reader sources (smoke-tested concretely) are outside the claim; goroutines run under the deterministic baton schedule plus a drain phase after return"),
    "C02": dict(text="Every derivation produced by the generator within the bounds (each grammar production and each pair of productions, single-line and multi-line layout) is accepted and the AST's position-free skeleton equals the skeleton generated with the derivation, for every value of the symbolic first characters of words and names; reserved words are ordinary words in six non-command positions and are recognised directly after every closing token. " + BOUNDED,
                note="derivations are enumerated by the executor under a variety budget (at most 2 / 3 non-default productions, depth <= 2); here-documents are covered by C08, layout variation by C09; known finding KF-C02-arith-in-parentheses"),
    "C03": dict(text="(A) every input within the bounds that the independent recogniser classifies as ill-formed or incomplete, and every program that is ill-formed by construction (hand-written list; generated derivations with one guaranteed-fatal damage), is rejected; (B) on every rejecting path over symbolic inputs the syntactic error is a parser.Error with the caller's name whose line:column lies inside the consumed text and designates a token start; (C) on every accepting path the printed AST has as many non-layout characters as the consumed source (no token silently dropped). " + BOUNDED,
                note="'ill-formed' is decided by the independent recursive-descent recogniser refparse (harness/h/refparse.go: POSIX token recognition and grammar plus go.sh's pinned quirks; validated against the parser on the repository corpus by setup, and against the derivation generator), by construction (damage kinds that cannot yield a sentence) and by a hand-written list; the recogniser excludes line continuations inside words/here-documents; conservation is a character count (re-association is covered by C05's round trip)"),
    "C04": dict(text="Intrinsic (source, AST) check on every accepting path within the bounds: the source characters at each recorded position spell the documented token (operators, reserved words, quote characters, $ ${ $(( ( ) ` names, literals, #), Pos/End inside the source, Pos <= End, non-empty nodes have non-zero End, children nest, siblings are ordered; columns in characters (non-ASCII representatives included). The source runes are symbolic, so spelling is a solver obligation. " + BOUNDED,
                note="alias-free; literal spelling is skipped when the source contains a line continuation; when the source contains '<<' only the starts of siblings/children are compared (a here-document redirection ends at its delimiter line); Comment.End is excluded as the property says"),
    "C05": dict(text="Metamorphic round trip on every accepting path within the bounds, for every bit pattern of the printer Config: the printed text is accepted and its skeleton (with ; and newline identified, singleton lists collapsed) equals the original's, here-document bodies byte for byte, node kinds unchanged. " + BOUNDED,
                note="trees come from the parser on bounded inputs; Width in 0..8; sources with a line continuation inside a word or inside a here-document are excluded (go.sh keeps such words as two literals; the properties exclude continuations inside words); known finding KF-C05-lone-backslash"),
    "C18": dict(text="On every accepting path within the bounds and every Config bit pattern: printing the re-parsed output is byte-identical (fix-point), printing the same tree twice is identical, the tree skeleton (incl. Sep fields) is unchanged by Fprint, and a writer failing at any symbolic offset makes Fprint return an error. " + BOUNDED,
                note="outputs are shorter than bufio's 4096-byte buffer, so the writer sees one Write at Flush (the multi-flush path is not exercised); trees with a lone trailing backslash are checked for purity/determinism only (see KF-C05-lone-backslash)"),
    "C06": dict(text="The schedule is a variable of the exploration: on each input the call is run under the canonical schedule and under every interleaving of the lexer/parser goroutines with a bounded number of preemptions (all choices among runnable goroutines and among ready select cases enumerated); results (commands, comments, error, input consumed / value, error, variables) must agree, at return nothing started by the call may be alive, touch the reader later, or stay blocked, and no pair of conflicting accesses may be unordered by happens-before. " + BOUNDED,
                note="the schedule dimension is enumerated by the executor (the solver decides only data branches); scheduling points are channel operations, select, mutex, atomics, go and goroutine exit of the engine's scheduler model; data races are looked for by the engine's happens-before monitor (vector clocks over channel/mutex/atomic/go edges, pointer loads and stores) on the explored schedules — a model, not the Go race detector; schedule-dependent counterexamples are confirmed by the engine's recorded interleaving, not natively"),
    "C07": dict(text="Metamorphic stream check on every path within the bounds: if A alone is accepted and fully consumed, then on the stream A<newline>B the first call returns exactly A's commands and comments and leaves the scanner at the first character of B, and the second call returns B and consumes it through its newline; blank lines give empty results and consume one line. " + BOUNDED,
                note="A ranges over bounded inputs/templates; B is one fixed simple command; A ending in a backslash or line continuation and comment-only lines (skipped together with following blank lines, as the repository's tests pin) are excluded"),
    "C08": dict(text="For every site and every value of the symbolic body runes within the bounds, each << / <<- redirection receives exactly the lines a reference here-document reader assigns to it (operator order, byte for byte, delimiter after quote removal, tab-indented delimiter for <<-), the body is expanded iff the delimiter is unquoted, and a missing delimiter line is an error. " + BOUNDED,
                note="body runes range over a 7-character alphabet (delimiter letter, a, tab, newline, $, backslash, blank); no line continuation inside a body; default deterministic schedule of the lexer/parser pair (schedule variation is C06)"),
    "C09": dict(text="Metamorphic check: for every layout template, every marked boundary and every transformation kind, with symbolic inserted characters, the transformed text is accepted, has the same skeleton (; and newline identified) as the untransformed one, and returns the added comment exactly once with its text. " + BOUNDED,
                note="one transformation at a time; boundaries are the hand-marked ones of 25 templates (blanks between tokens, ';' separators, newlines where the grammar has linebreak); continuations inside words are excluded as the property says"),
    "C10": dict(text="The fault position is a solver variable: for every position at which the RuneScanner (or io.Reader) starts failing during the call, ParseCommands returns a non-nil error that is the injected error, on every feasible path within the bounds. " + BOUNDED,
                note="single persistent fault (once failing, always failing); faults that only a goroutine left behind after the return would hit are not counted (that is C06); deterministic baton schedule"),
    "C11": dict(text="Eval agrees with a C reference evaluator (precedence, associativity, laziness, effects on a map store, faults) for every 64-bit value of the symbolic operands on all shapes within the bounds; value obligations are discharged as identical terms or by z3. " + BOUNDED,
                note="reference evaluator applies Go's own * / % << >> (the ALU is the spec); C-undefined cases (MinInt64/-1, shift count >= 64, unsequenced modify+access) are excluded by assumption; strconv.Itoa/ParseInt of a symbolic integer are modelled as an exact decimal round trip; known finding KF-C11-eager-operands"),
    "C12": dict(text="Match agrees with a direct backtracking matcher for shell pattern notation in all four removal modes for every byte value of the symbolic subject, on every pattern of the enumerated alphabets; malformed patterns give an error. " + BOUNDED,
                note="patterns are engine-enumerated (regexp.Compile needs a concrete source; its errors are the real ones); matching a symbolic subject uses gosx's regexp model (leftmost-first backtracking over regexp/syntax), validated against the real regexp package by setup (-selftest-regex) ; [:alpha:] is read in the C locale; collating symbols / equivalence classes are not modelled"),
    "C13": dict(text="Expand of directly built ParamExp nodes agrees with the POSIX operator table (value, default, assignment, error, alternative; colon forms; w expanded only when used; positional/special read-only; nounset; $@/$*/$#; ${#p} in characters; % %% # ## against a backtracking matcher) for every value of the symbolic bytes on every cell of the enumerated product. " + BOUNDED,
                note="values/words are at most 2-3 symbolic ASCII bytes; unquoted cells assume no default-IFS byte in value/word (splitting is C14); pattern removal uses concrete 9 patterns without brackets and values over {a,b} (regexp runs natively on concretised strings)"),
    "C14": dict(text="Expand in default mode (NoGlob) of words built from quoted/unquoted segments of symbolic bytes, with symbolic IFS, yields exactly the fields of a reference splitter written from the statement (cut at unquoted IFS bytes, drop empty unquoted fields). " + BOUNDED,
                note="segments <= 2 symbolic ASCII bytes, <= 3 (quick) / 6 (thorough) segments, IFS <= 3 symbolic bytes; multi-byte IFS only through one concrete representative"),
    "C15": dict(text="For every string s of symbolic runes within the bound, written under each literal quoting, the real parser followed by the real Expand (every documented mode) yields exactly one field equal to s (Pattern mode: the reference escaping), under an adversarial environment. " + BOUNDED,
                note="|s| <= 2 runes over D (3 ASCII runes thorough); IFS is 2 symbolic bytes; the file system is the engine's model with files that would match unquoted specials; user.Lookup is a stub"),
    "C20": dict(text="Inductive-style stepping of ExecEnv against a map model: after every operation of every history within the bound, Get of every name of the universe and the Walk set agree with the model; specials/positionals reflect Args; Args/Opts/Aliases/AST unchanged. " + BOUNDED,
                note="histories <= 2 (quick) / 3 (thorough) operations over {Set, Unset, ${n:=w}, ${n:?w}, Eval n=k, Eval n++, plain expansion} x 11 names (+1 symbolic name); os.Environ is an empty stub; $$ is not compared"),
    "C16": dict(text="Glob against a symbolic in-memory file system (names are symbolic bytes, kinds enumerated) returns exactly the paths a reference walker with the C12 reference matcher computes: existence, no duplicates, ascending order, dot-file rule, directories only before a slash, escapes literal, relative results. " + BOUNDED,
                note="the OS is replaced by the fsmodel package behind os.Lstat/os.Stat/os.Open/Readdirnames (replay materialises the tree on disk and runs the real Glob); trees have one level plus one child per directory, names are 1 byte; absolute patterns and a trailing lone backslash are outside the claim; '.' and '..' are taken to be present in every directory"),
    "C17": dict(text="Metamorphic check: for every alias table and program of the enumerated families, parsing the folded text with the table gives the same skeleton as parsing the token-level unfolding (POSIX rules: command position, not re-expanded inside its own expansion, next word examined after a trailing blank) without aliases; ill-formed unfoldings are rejected; every table terminates (engine budget). " + BOUNDED,
                note="programs are short token lists; the unfolding oracle works on blank-separated tokens; alias values containing here-documents and positions are excluded (as in the property); termination for arbitrary tables is also covered by C01_Alias"),
    "C19": dict(text="No panic / non-termination of Pos, End, Fprint (symbolic Config), Expand (symbolic ExpMode and Option), Eval, Match, Glob and Option.String on every feasible path within the bounds; errors are of the documented kinds. " + BOUNDED,
                note="ASTs come from the parser on bounded inputs (hand-built ASTs are outside); Glob runs against the engine's empty file-system stub; regexp.Compile/regexp matching run natively on concretised patterns/subjects; user.Lookup is a stub that always fails"),
}

NOT_APPLICABLE = {}
