package h

import (
	"strconv"

	"github.com/hattya/go.sh/ast"
	"github.com/hattya/go.sh/interp"
	"verifharness/nd"
)

// C20 — the variable store is a map with read-only specials.
//
// A history of h operations over a small name universe is engine-enumerated;
// values are symbolic bytes, the arithmetic operand is a symbolic int64, one
// name of the universe is itself symbolic (2 bytes). A plain association-list
// model is stepped alongside; after every step Get of every name and the Walk
// set must agree with it.

type kv struct{ k, v string }

type storeModel struct{ kv []kv }

func (m *storeModel) get(k string) (string, bool) {
	for _, e := range m.kv {
		if e.k == k {
			return e.v, true
		}
	}
	return "", false
}

func (m *storeModel) set(k, v string) {
	for i := range m.kv {
		if m.kv[i].k == k {
			m.kv[i].v = v
			return
		}
	}
	m.kv = append(m.kv, kv{k, v})
}

func (m *storeModel) unset(k string) {
	for i := range m.kv {
		if m.kv[i].k == k {
			m.kv = append(m.kv[:i:i], m.kv[i+1:]...)
			return
		}
	}
}

func isSpecialName(s string) bool {
	switch s {
	case "@", "*", "#", "?", "-", "$", "!", "0":
		return true
	}
	return false
}

func isPositionalName(s string) bool {
	if s == "" || s == "0" {
		return false
	}
	for i := 0; i < len(s); i++ {
		if s[i] < '0' || s[i] > '9' {
			return false
		}
	}
	return true
}

var c20Names = []string{"a", "A", "b", "1", "10", "01", "0", "@", "#", "?", "!", "٣", "١٢"}

func c20Check(env *interp.ExecEnv, m *storeModel, names []string) {
	for _, n := range names {
		v, set := env.Get(n)
		switch {
		case n == "#":
			nd.Assert(set && v.Value == "1", "$# reflects Args")
		case n == "?":
			nd.Assert(set && v.Value == "0", "$? is 0")
		case n == "0":
			nd.Assert(set && v.Value == "sh", "$0 reflects Args")
		case n == "!":
			nd.Assert(!set, "$! is unset")
		case n == "@" || n == "*" || n == "-" || n == "$":
			// read through expansion, not Get
		case isPositionalName(n):
			i, _ := strconv.Atoi(n)
			if i == 0 {
				nd.Assert(set && v.Value == "sh", "positional parameter 0 reflects Args")
			} else if i == 1 {
				nd.Assert(set && v.Value == "p1", "positional parameter reflects Args")
			} else {
				nd.Assert(!set, "positional parameter beyond Args is unset")
			}
		default:
			mv, ms := m.get(n)
			nd.Assert(set == ms, "Get agrees with the map model on set-ness")
			if set && ms {
				nd.Assert(v.Value == mv, "Get returns the last value set")
			}
		}
	}
	// Walk enumerates exactly the live entries
	count := 0
	env.Walk(func(v interp.Var) {
		count++
		mv, ms := m.get(v.Name)
		nd.Assert(ms && mv == v.Value, "Walk yields only live entries with their values")
	})
	nd.Assert(count == len(m.kv), "Walk yields every live entry once")
}

func c20Step(env *interp.ExecEnv, m *storeModel, names []string) {
	name := names[nd.Choice(len(names))]
	ordinary := !isSpecialName(name) && !isPositionalName(name)
	switch nd.Choice(7) {
	case 0: // Set
		v := nd.Str(1)
		env.Set(name, v)
		if ordinary {
			m.set(name, v)
		}
		nd.Cover("set")
	case 1: // Unset
		env.Unset(name)
		if ordinary {
			m.unset(name)
		}
		nd.Cover("unset")
	case 2: // ${name:=w}
		w := nd.Str(1)
		word := ast.Word{mkParam(name, ":=", ast.Word{&ast.Lit{Value: w}})}
		before, _ := PrintWord(word)
		_, err := env.Expand(word, interp.Literal)
		after, _ := PrintWord(word)
		nd.Assert(before == after, "Expand does not modify the AST")
		cur, set := m.get(name)
		if ordinary {
			if !set || cur == "" {
				nd.Assert(err == nil, "${n:=w} on an ordinary variable succeeds")
				m.set(name, w)
				nd.Cover("assign-default")
			}
		} else if name != "@" && name != "*" {
			v, vset := env.Get(name)
			if !vset || v.Value == "" {
				_, isPE := err.(interp.ParamExpError)
				nd.Assert(isPE, "${n:=w} on a special or positional parameter fails")
			}
		}
	case 3: // ${name:?w}
		word := ast.Word{mkParam(name, ":?", ast.Word{&ast.Lit{Value: "msg"}})}
		_, err := env.Expand(word, interp.Literal)
		v, vset := env.Get(name)
		if name != "@" && name != "*" && (!vset || v.Value == "") {
			_, isPE := err.(interp.ParamExpError)
			nd.Assert(isPE, "${n:?w} on an unset or null parameter fails")
			nd.Cover("error")
		}
	case 4: // Eval "name = k"
		if name != "a" && name != "A" && name != "b" {
			nd.Assume(false)
		}
		k := nd.Int()
		env.Set("k", strconv.Itoa(k))
		m.set("k", strconv.Itoa(k))
		n, err := env.Eval(name + " = k")
		nd.Assert(err == nil && n == k, "arithmetic assignment evaluates to the value")
		m.set(name, strconv.Itoa(k))
		nd.Cover("arith-assign")
	case 5: // Eval "name++"
		if name != "a" && name != "A" && name != "b" {
			nd.Assume(false)
		}
		cur, set := m.get(name)
		_, err := env.Eval(name + "++")
		if !set || cur == "" {
			nd.Assert(err == nil, "increment of an unset variable succeeds")
			m.set(name, "1")
		} else if n, perr := strconv.ParseInt(cur, 0, 64); perr == nil {
			nd.Assert(err == nil, "increment of a numeric variable succeeds")
			m.set(name, strconv.Itoa(int(n)+1))
		} else {
			nd.Assert(err != nil, "increment of a non-numeric variable fails")
		}
		nd.Cover("arith-inc")
	case 6: // a read-only expansion changes nothing
		word := ast.Word{&ast.ParamExp{Name: &ast.Lit{Value: name}}}
		_, _ = env.Expand(word, interp.Quote)
	}
}

// PrintWord renders a word with the default printer configuration.
func PrintWord(w ast.Word) (string, error) {
	var b errWriter
	b.Limit = -1
	err := printerFprint(&b, w)
	return b.B.String(), err
}

func c20(h int, symbolicName bool) {
	env := interp.NewExecEnv("sh", "p1")
	// start from a known store: drop whatever the process environment brought in
	var inherited []string
	env.Walk(func(v interp.Var) { inherited = append(inherited, v.Name) })
	for _, n := range inherited {
		if n != "IFS" {
			env.Unset(n)
		}
	}
	m := &storeModel{}
	m.set("IFS", interp.IFS)
	names := c20Names
	if symbolicName {
		s := nd.Str(2)
		names = append(append([]string{}, c20Names...), s)
	}
	argsBefore := len(env.Args)
	for i := 0; i < h; i++ {
		c20Step(env, m, names)
		c20Check(env, m, names)
	}
	nd.Assert(len(env.Args) == argsBefore && env.Args[0] == "sh" && env.Args[1] == "p1", "Args are not modified")
	nd.Assert(env.Opts == 0 && len(env.Aliases) == 0, "Opts and Aliases are not modified")
}

func C20_H1()    { c20(1, false) }
func C20_H2()    { c20(2, false) }
func C20_H3()    { c20(3, false) }
func C20_H1Sym() { c20(1, true) }
func C20_H2Sym() { c20(2, true) }
