package interp

// gosx: package-level state of the code under test.
//
// The globals of all packages are initialised once and shared by all paths
// (and all workers). That is sound only for globals that nothing writes after
// initialisation. A change to go.sh may add package-level state (a cache, a
// counter); such a global must be private to each path, otherwise state leaks
// between paths. findMutableGlobals decides, from the SSA of the go.sh and
// harness packages, which globals may be written (or reached through a
// reference that escapes) outside package initialisation; fork() gives each
// path its own deep copy of exactly those.

import (
	"fmt"
	"go/token"
	"go/types"
	"unsafe"

	"golang.org/x/tools/go/ssa"
)

func hasRefs(t types.Type, seen map[types.Type]bool) bool {
	if seen[t] {
		return false
	}
	seen[t] = true
	switch u := t.Underlying().(type) {
	case *types.Basic:
		return u.Kind() == types.UnsafePointer
	case *types.Array:
		return hasRefs(u.Elem(), seen)
	case *types.Struct:
		for k := 0; k < u.NumFields(); k++ {
			if hasRefs(u.Field(k).Type(), seen) {
				return true
			}
		}
		return false
	}
	return true // pointer, slice, map, chan, func, interface, ...
}

func isInitFn(fn *ssa.Function) bool {
	for fn != nil && fn.Parent() != nil {
		fn = fn.Parent()
	}
	if fn == nil {
		return false
	}
	n := fn.Name()
	return fn.Signature.Recv() == nil && (n == "init" || len(n) > 5 && n[:5] == "init#")
}

// addrUseSafe: instr uses the address v (of a global, or derived from one by
// FieldAddr/IndexAddr); is the use read-only?
func addrUseSafe(instr ssa.Instruction, v ssa.Value, depth int) bool {
	if depth > 8 {
		return false
	}
	switch x := instr.(type) {
	case *ssa.DebugRef:
		return true
	case *ssa.UnOp:
		if x.Op == token.MUL && x.X == v {
			return loadedSafe(x, depth+1)
		}
	case *ssa.FieldAddr:
		if x.X == v {
			return derivedSafe(x, depth+1)
		}
	case *ssa.IndexAddr:
		if x.X == v {
			return derivedSafe(x, depth+1)
		}
	case *ssa.Store:
		if x.Addr == v && x.Val != v {
			return isInitFn(x.Parent())
		}
	}
	return false
}

func derivedSafe(v ssa.Value, depth int) bool {
	refs := v.Referrers()
	if refs == nil {
		return false
	}
	for _, r := range *refs {
		if !addrUseSafe(r, v, depth) {
			return false
		}
	}
	return true
}

// loadedSafe: v was loaded from a global; can the global's state change
// through v?
func loadedSafe(v ssa.Value, depth int) bool {
	if !hasRefs(v.Type(), map[types.Type]bool{}) {
		return true
	}
	refs := v.Referrers()
	if refs == nil {
		return false
	}
	for _, r := range *refs {
		switch x := r.(type) {
		case *ssa.DebugRef, *ssa.Range, *ssa.If:
		case *ssa.Lookup:
			if x.X != v {
				return false
			}
		case *ssa.Index:
			if x.X != v {
				return false
			}
		case *ssa.BinOp:
			if x.Op != token.EQL && x.Op != token.NEQ {
				return false
			}
		case *ssa.IndexAddr:
			if x.X != v || !derivedSafe(x, depth+1) {
				return false
			}
		case *ssa.Call:
			b, ok := x.Call.Value.(*ssa.Builtin)
			if !ok || (b.Name() != "len" && b.Name() != "cap") {
				return false
			}
		default:
			return false
		}
	}
	return true
}

// findMutableGlobals returns the globals of the go.sh and harness packages
// that are not provably read-only after package initialisation.
func findMutableGlobals(prog *ssa.Program) []*ssa.Global {
	unsafeG := map[*ssa.Global]bool{}
	var order []*ssa.Global
	seen := map[*ssa.Function]bool{}
	var visit func(fn *ssa.Function)
	visit = func(fn *ssa.Function) {
		if fn == nil || seen[fn] {
			return
		}
		seen[fn] = true
		for _, b := range fn.Blocks {
			for _, instr := range b.Instrs {
				for _, op := range instr.Operands(nil) {
					g, ok := (*op).(*ssa.Global)
					if !ok || !userPkg(g.Pkg) || unsafeG[g] {
						continue
					}
					if !addrUseSafe(instr, g, 0) {
						unsafeG[g] = true
						order = append(order, g)
					}
				}
			}
		}
		for _, a := range fn.AnonFuncs {
			visit(a)
		}
	}
	for _, pkg := range prog.AllPackages() {
		if !userPkg(pkg) {
			continue
		}
		for _, m := range pkg.Members {
			switch m := m.(type) {
			case *ssa.Function:
				visit(m)
			case *ssa.Type:
				for _, t := range []types.Type{m.Type(), types.NewPointer(m.Type())} {
					ms := prog.MethodSets.MethodSet(t)
					for k := 0; k < ms.Len(); k++ {
						if f := prog.MethodValue(ms.At(k)); f != nil && f.Synthetic == "" {
							visit(f)
						}
					}
				}
			}
		}
	}
	return order
}

// deepCopy copies a value tree; pointers are copied once (memo), so aliasing
// inside the copied state is preserved. Kinds that cannot be copied make the
// run inconclusive.
func deepCopy(v value, memo map[*value]*value) value {
	switch x := v.(type) {
	case nil, bool, int, int8, int16, int32, int64, uint, uint8, uint16, uint32, uint64, uintptr, float32, float64, complex64, complex128,
		string, sstr, sym, decStr, *ssa.Function, *ssa.Builtin, *closure, rtype, hostRangeTable, hostRegexp, bad, unsafe.Pointer:
		return v
	case array:
		out := make(array, len(x))
		for k, e := range x {
			out[k] = deepCopy(e, memo)
		}
		return out
	case structure:
		out := make(structure, len(x))
		for k, e := range x {
			out[k] = deepCopy(e, memo)
		}
		return out
	case tuple:
		out := make(tuple, len(x))
		for k, e := range x {
			out[k] = deepCopy(e, memo)
		}
		return out
	case []value:
		if x == nil {
			return x
		}
		out := make([]value, len(x))
		for k, e := range x {
			out[k] = deepCopy(e, memo)
		}
		return out
	case iface:
		return iface{x.t, deepCopy(x.v, memo)}
	case *value:
		if x == nil {
			return x
		}
		if c, ok := memo[x]; ok {
			return c
		}
		c := new(value)
		memo[x] = c
		*c = deepCopy(*x, memo)
		return c
	case map[value]value:
		if x == nil {
			return x
		}
		out := make(map[value]value, len(x))
		for k, e := range x {
			out[deepCopy(k, memo)] = deepCopy(e, memo)
		}
		return out
	case *smap:
		if x == nil {
			return x
		}
		out := &smap{idx: make(map[string]int, len(x.idx)), nsym: x.nsym}
		for k, n := range x.idx {
			out.idx[k] = n
		}
		out.keys = append(out.keys, x.keys...)
		for _, e := range x.vals {
			out.vals = append(out.vals, deepCopy(e, memo))
		}
		return out
	case *hashmap:
		if x == nil {
			return x
		}
		out := &hashmap{keyType: x.keyType, table: make(map[int]*entry, len(x.table)), length: x.length}
		for h, e := range x.table {
			var head, tail *entry
			for ; e != nil; e = e.next {
				n := &entry{key: deepCopy(e.key, memo).(hashable), value: deepCopy(e.value, memo)}
				if head == nil {
					head = n
				} else {
					tail.next = n
				}
				tail = n
			}
			out.table[h] = head
		}
		return out
	}
	panic(engineError{fmt.Sprintf("package-level state of a kind the engine cannot give each path a private copy of (%T)", v)})
}

// ---------------------------------------------------------------- sync.Map
//
// sync.Map is modelled as an association list kept beside the interpreter of
// the current path (the zero sync.Map in the program's memory is its handle).
// Keys are concretised; every operation is a scheduling point.

type syncMapState struct {
	keys []value
	vals []value
}

func (i *interpreter) syncMap(h value) *syncMapState {
	p := h.(*value)
	if i.syncMaps == nil {
		i.syncMaps = map[*value]*syncMapState{}
	}
	m := i.syncMaps[p]
	if m == nil {
		m = &syncMapState{}
		i.syncMaps[p] = m
	}
	return m
}

func (i *interpreter) concKey(k value) value {
	if f, ok := k.(iface); ok {
		return iface{f.t, i.conc(f.v)}
	}
	return i.conc(k)
}

func (m *syncMapState) find(k value) int {
	kf, _ := k.(iface)
	for j, kk := range m.keys {
		o, _ := kk.(iface)
		if kf.t == nil || o.t == nil {
			if kf.t == nil && o.t == nil {
				return j
			}
			continue
		}
		if types.Identical(kf.t, o.t) && equals(kf.t, kf.v, o.v) {
			return j
		}
	}
	return -1
}

func nilIface() value { return iface{} }

func init() {
	for k, v := range map[string]externalFn{
		"(*sync.Map).Load": func(fr *frame, a []value) value {
			fr.i.sched.yield()
			m := fr.i.syncMap(a[0])
			if j := m.find(fr.i.concKey(a[1])); j >= 0 {
				return tuple{m.vals[j], true}
			}
			return tuple{nilIface(), false}
		},
		"(*sync.Map).Store": func(fr *frame, a []value) value {
			fr.i.sched.yield()
			m := fr.i.syncMap(a[0])
			k := fr.i.concKey(a[1])
			if j := m.find(k); j >= 0 {
				m.vals[j] = a[2]
			} else {
				m.keys, m.vals = append(m.keys, k), append(m.vals, a[2])
			}
			return nil
		},
		"(*sync.Map).LoadOrStore": func(fr *frame, a []value) value {
			fr.i.sched.yield()
			m := fr.i.syncMap(a[0])
			k := fr.i.concKey(a[1])
			if j := m.find(k); j >= 0 {
				return tuple{m.vals[j], true}
			}
			m.keys, m.vals = append(m.keys, k), append(m.vals, a[2])
			return tuple{a[2], false}
		},
		"(*sync.Map).LoadAndDelete": func(fr *frame, a []value) value {
			fr.i.sched.yield()
			m := fr.i.syncMap(a[0])
			if j := m.find(fr.i.concKey(a[1])); j >= 0 {
				v := m.vals[j]
				m.keys, m.vals = append(m.keys[:j:j], m.keys[j+1:]...), append(m.vals[:j:j], m.vals[j+1:]...)
				return tuple{v, true}
			}
			return tuple{nilIface(), false}
		},
		"(*sync.Map).Delete": func(fr *frame, a []value) value {
			fr.i.sched.yield()
			m := fr.i.syncMap(a[0])
			if j := m.find(fr.i.concKey(a[1])); j >= 0 {
				m.keys, m.vals = append(m.keys[:j:j], m.keys[j+1:]...), append(m.vals[:j:j], m.vals[j+1:]...)
			}
			return nil
		},
		"(*sync.Map).Swap": func(fr *frame, a []value) value {
			fr.i.sched.yield()
			m := fr.i.syncMap(a[0])
			k := fr.i.concKey(a[1])
			if j := m.find(k); j >= 0 {
				old := m.vals[j]
				m.vals[j] = a[2]
				return tuple{old, true}
			}
			m.keys, m.vals = append(m.keys, k), append(m.vals, a[2])
			return tuple{nilIface(), false}
		},
		"(*sync.Map).Range": func(fr *frame, a []value) value {
			fr.i.sched.yield()
			m := fr.i.syncMap(a[0])
			keys := append([]value(nil), m.keys...)
			vals := append([]value(nil), m.vals...)
			for j := range keys {
				r := call(fr.i, fr, token.NoPos, a[1], []value{keys[j], vals[j]})
				if !fr.i.decide(r) {
					break
				}
			}
			return nil
		},
	} {
		externals[k] = v
	}
}
