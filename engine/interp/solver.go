package interp

// gosx: one long-lived SMT solver process per worker, spoken to over a pipe.

import (
	"bufio"
	"fmt"
	"io"
	"os"
	"os/exec"
	"strconv"
	"strings"
	"time"
)

type satResult int

const (
	resUnsat satResult = iota
	resSat
	resUnknown
)

func (r satResult) String() string { return [...]string{"unsat", "sat", "unknown"}[r] }

// SolverCmd is the solver command line (default: z3 -in).
var SolverCmd = []string{"z3", "-in"}

// SolverTimeoutMs is the per-query soft timeout handed to the solver.
var SolverTimeoutMs = 10000

type solver struct {
	cmd   *exec.Cmd
	in    *bufio.Writer
	inc   io.WriteCloser
	out   *bufio.Reader
	stamp int32 // definitions made under this stamp are live
	ndecl int   // variables declared at the current path level
	// statistics
	Queries  int
	Sat      int
	Unsat    int
	Unknown  int
	Time     time.Duration
	log      io.Writer
	isCVC5   bool
	errLines []string
}

func newSolver() *solver {
	s := &solver{}
	s.start()
	return s
}

func (s *solver) start() {
	cmd := exec.Command(SolverCmd[0], SolverCmd[1:]...)
	in, err := cmd.StdinPipe()
	if err != nil {
		panic(err)
	}
	out, err := cmd.StdoutPipe()
	if err != nil {
		panic(err)
	}
	cmd.Stderr = os.Stderr
	if err := cmd.Start(); err != nil {
		panic("cannot start solver: " + err.Error())
	}
	s.cmd, s.inc, s.in, s.out = cmd, in, bufio.NewWriterSize(in, 1<<16), bufio.NewReaderSize(out, 1<<16)
	s.isCVC5 = strings.Contains(SolverCmd[0], "cvc5")
	s.send("(set-option :produce-models true)\n")
	if !s.isCVC5 {
		s.send(fmt.Sprintf("(set-option :timeout %d)\n", SolverTimeoutMs))
	} else {
		s.send("(set-logic QF_BV)\n")
	}
	s.send("(push 1)\n")
	s.stamp = 1
}

func (s *solver) close() {
	if s.cmd != nil {
		s.inc.Close()
		s.cmd.Process.Kill()
		s.cmd.Wait()
		s.cmd = nil
	}
}

func (s *solver) send(txt string) {
	if s.log != nil {
		io.WriteString(s.log, txt)
	}
	s.in.WriteString(txt)
}

// newPath drops everything asserted and defined for the previous path.
func (s *solver) newPath() {
	s.send("(pop 1)\n(push 1)\n")
	s.stamp++
	s.ndecl = 0
}

// declareUpTo makes sure variables 0..n-1 of tb are declared.
func (s *solver) declareUpTo(tb *termTable) {
	for s.ndecl < len(tb.vars) {
		v := tb.vars[s.ndecl]
		s.send(fmt.Sprintf("(declare-const %s %s)\n", v.name(), sortOf(v.w)))
		s.ndecl++
	}
}

// define emits define-fun lines for every not yet defined sub-term of t
// (at the current assertion level).
func (s *solver) define(t *term) {
	if t == nil || t.op == opConst || t.op == opVar || t.defStamp == s.stamp {
		return
	}
	s.define(t.a)
	s.define(t.b)
	s.define(t.c)
	s.send(fmt.Sprintf("(define-fun %s () %s %s)\n", t.name(), sortOf(t.w), t.body()))
	t.defStamp = s.stamp
}

func (s *solver) assert(tb *termTable, t *term) {
	s.declareUpTo(tb)
	s.define(t)
	s.send("(assert " + t.name() + ")\n")
}

func (s *solver) readLine() string {
	s.in.Flush()
	for {
		line, err := s.out.ReadString('\n')
		if err != nil {
			panic(engineError{"solver died: " + err.Error()})
		}
		line = strings.TrimSpace(line)
		if line == "" {
			continue
		}
		if strings.HasPrefix(line, "(error") {
			s.errLines = append(s.errLines, line)
			// an error line is never a verdict: treat the query as unknown
			return "error"
		}
		return line
	}
}

// check asks whether the asserted constraints together with extra (may be
// nil) are satisfiable. On sat, and if wantModel, the values of all declared
// variables are returned.
func (s *solver) check(tb *termTable, extra *term, wantModel bool) (satResult, []uint64) {
	t0 := time.Now()
	defer func() { s.Time += time.Since(t0); s.Queries++ }()
	s.declareUpTo(tb)
	if extra != nil {
		s.define(extra)
		s.send("(push 1)\n(assert " + extra.name() + ")\n")
	}
	s.send("(check-sat)\n")
	line := s.readLine()
	var res satResult
	var model []uint64
	switch line {
	case "sat":
		res = resSat
		s.Sat++
		if wantModel && len(tb.vars) > 0 {
			model = s.getModel(tb)
			if model == nil {
				res = resUnknown
			}
		}
	case "unsat":
		res = resUnsat
		s.Unsat++
	default:
		res = resUnknown
		s.Unknown++
	}
	if extra != nil {
		s.send("(pop 1)\n")
	}
	return res, model
}

func (s *solver) getModel(tb *termTable) []uint64 {
	var b strings.Builder
	b.WriteString("(get-value (")
	for i, v := range tb.vars {
		if i > 0 {
			b.WriteByte(' ')
		}
		b.WriteString(v.name())
	}
	b.WriteString("))\n")
	s.send(b.String())
	s.in.Flush()
	// read one balanced s-expression
	var sb strings.Builder
	depth := 0
	started := false
	for {
		line, err := s.out.ReadString('\n')
		if err != nil {
			panic(engineError{"solver died: " + err.Error()})
		}
		if strings.HasPrefix(strings.TrimSpace(line), "(error") {
			s.errLines = append(s.errLines, strings.TrimSpace(line))
			return nil
		}
		sb.WriteString(line)
		for _, c := range line {
			switch c {
			case '(':
				depth++
				started = true
			case ')':
				depth--
			}
		}
		if started && depth <= 0 {
			break
		}
	}
	txt := sb.String()
	model := make([]uint64, len(tb.vars))
	// entries look like (v3 #x0000002a) or (v3 #b101) or (v3 true) or (v3 (_ bv5 32))
	for i, v := range tb.vars {
		key := "(" + v.name() + " "
		j := strings.Index(txt, key)
		if j < 0 {
			continue
		}
		rest := txt[j+len(key):]
		rest = strings.TrimLeft(rest, " \n")
		switch {
		case strings.HasPrefix(rest, "#x"):
			e := strings.IndexAny(rest, ") \n")
			n, _ := strconv.ParseUint(rest[2:e], 16, 64)
			model[i] = n
		case strings.HasPrefix(rest, "#b"):
			e := strings.IndexAny(rest, ") \n")
			n, _ := strconv.ParseUint(rest[2:e], 2, 64)
			model[i] = n
		case strings.HasPrefix(rest, "true"):
			model[i] = 1
		case strings.HasPrefix(rest, "false"):
			model[i] = 0
		case strings.HasPrefix(rest, "(_ bv"):
			e := strings.IndexByte(rest[5:], ' ')
			n, _ := strconv.ParseUint(rest[5:5+e], 10, 64)
			model[i] = n
		}
	}
	return model
}
