package h

import (
	"strings"

	"github.com/hattya/go.sh/interp"
	"verifharness/nd"
)

// C17 — alias substitution equals textual replacement at command position.
//
// The program is a token list assembled from engine-enumerated choices; the
// alias table maps a and b to values drawn from lists that contain several
// tokens, operators, reserved words, assignments, redirections, trailing
// blanks, chains and cycles. The oracle unfolds the aliases on the token list
// (POSIX rules, written below) and parses the result without aliases.

var aliasValuesA = []string{"z", "z w", "z ", "b", "b ", "a", "a x", "z ; b", "z | b", "v=1 z", "z >f", "! z", "{ z ; }", "if z ; then w ; fi", "{ z ; } ", "if z ; then w ; fi "}
var aliasValuesB = []string{"t", "t ", "a", "a ", "b", "t u", "t c", "c c"}
var aliasValuesC = []string{"k", "k j "}

func isCmdStarter(tok string) bool {
	switch tok {
	case ";", "|", "&&", "||", "&", "(", "{", "!", "if", "then", "else", "elif", "while", "until", "do", "\n":
		return true
	}
	return false
}

func fieldsOf(v string) []string {
	var out []string
	cur := ""
	for i := 0; i < len(v); i++ {
		if v[i] == ' ' || v[i] == '\t' {
			if cur != "" {
				out = append(out, cur)
				cur = ""
			}
			continue
		}
		cur += string(rune(v[i]))
	}
	if cur != "" {
		out = append(out, cur)
	}
	return out
}

func contains(set []string, s string) bool {
	for _, x := range set {
		if x == s {
			return true
		}
	}
	return false
}

type aliasTable struct{ a, b, c string }

func (t aliasTable) get(name string) (string, bool) {
	switch name {
	case "a":
		return t.a, true
	case "b":
		return t.b, true
	case "c":
		if t.c != "" {
			return t.c, true
		}
	}
	return "", false
}

// unfold applies alias substitution to a token list: a token in command
// position (or following an alias whose value ends in a blank) that names an
// alias not being expanded is replaced by the tokens of its value, which are
// unfolded in turn with that name marked as being expanded.
func unfold(toks []string, t aliasTable, active []string, startCmd bool) (out []string, endsBlank bool) {
	cmdpos := startCmd
	checkNext := false
	for _, tok := range toks {
		if cmdpos || checkNext {
			if v, ok := t.get(tok); ok && !contains(active, tok) {
				sub, blank := unfold(fieldsOf(v), t, append(append([]string{}, active...), tok), true)
				out = append(out, sub...)
				checkNext = blank || (len(v) > 0 && (v[len(v)-1] == ' ' || v[len(v)-1] == '\t'))
				if len(sub) > 0 {
					last := sub[len(sub)-1]
					cmdpos = isCmdStarter(last) || (cmdposAfterValue(sub))
				}
				continue
			}
		}
		out = append(out, tok)
		checkNext = false
		switch {
		case isCmdStarter(tok):
			cmdpos = true
		case cmdpos && strings.Contains(tok, "=") && tok[0] != '=':
			// an assignment word keeps the command position
		case len(tok) > 0 && (tok[0] == '>' || tok[0] == '<'):
			// a redirection does not change the position
		default:
			cmdpos = false
		}
	}
	return out, checkNext
}

// cmdposAfterValue: after the tokens of an alias value, is the next token in
// command position? (only when the value ends with an operator/reserved word
// or consists of assignments/redirections)
func cmdposAfterValue(sub []string) bool {
	cmdpos := true
	for _, tok := range sub {
		switch {
		case isCmdStarter(tok):
			cmdpos = true
		case cmdpos && strings.Contains(tok, "=") && tok[0] != '=':
		case len(tok) > 0 && (tok[0] == '>' || tok[0] == '<'):
		default:
			cmdpos = false
		}
	}
	return cmdpos
}

func joinTokens(toks []string) string {
	out := ""
	for i, t := range toks {
		if i > 0 && t != "\n" && toks[i-1] != "\n" {
			out += " "
		}
		out += t
	}
	return out
}

func C17_Fold()  { c17Fold(2) }
func C17_Fold1() { c17Fold(1) }

// C17_Sym: alias values, command word and argument are symbolic letters that
// may coincide with the alias names (the solver finds the cycles, chains and
// blank-chaining by itself).
func C17_Sym() {
	va, vb := nd.StrIn(1, "abz"), nd.StrIn(1, "abt")
	if nd.Choice(2) == 1 {
		va += " "
	}
	if nd.Choice(2) == 1 {
		vb += " "
	}
	tbl := aliasTable{a: va, b: vb}
	toks := []string{nd.StrIn(1, "abx"), nd.StrIn(1, "aby"), nd.StrIn(1, "abw")}
	unf, _ := unfold(toks, tbl, nil, true)
	folded, unfolded := joinTokens(toks), joinTokens(unf)
	env := interp.NewExecEnv("sh")
	env.Aliases["a"] = tbl.a
	env.Aliases["b"] = tbl.b
	got, err1 := parseAllEnv(env, NewScanner([]rune(folded+"\n")))
	want, err2 := parseAllEnv(nil, NewScanner([]rune(unfolded+"\n")))
	nd.Observe("a='" + tbl.a + "' b='" + tbl.b + "' :: " + folded + " => " + unfolded)
	nd.Assert(err1 == nil && err2 == nil, "word-only programs are accepted with any alias table")
	if err1 == nil && err2 == nil {
		nd.Assert(SkelEq(got) == SkelEq(want), "parsing with aliases equals parsing the unfolded text")
	}
}

func c17Fold(maxCmds int) {
	tbl := aliasTable{a: aliasValuesA[nd.Choice(len(aliasValuesA))], b: aliasValuesB[nd.Choice(len(aliasValuesB))], c: aliasValuesC[nd.Choice(len(aliasValuesC))]}
	cmdWords := []string{"x", "a", "b", "'a'", "\\a", "v=2"}
	argWords := []string{"y", "a", "c"}
	seps := []string{";", "|", "\n"}
	var toks []string
	n := 1 + nd.Choice(maxCmds)
	for i := 0; i < n; i++ {
		if i > 0 {
			toks = append(toks, seps[nd.Choice(len(seps))])
		}
		cw := cmdWords[nd.Choice(len(cmdWords))]
		toks = append(toks, cw)
		if cw == "v=2" {
			toks = append(toks, cmdWords[nd.Choice(3)]) // the command word after an assignment
		}
		if nd.Choice(2) == 1 {
			toks = append(toks, argWords[nd.Choice(len(argWords))])
		}
	}
	wrap := 0
	if n == 1 {
		wrap = nd.Choice(4)
	}
	switch wrap {
	case 1:
		toks = append(append([]string{"if"}, toks...), ";", "then", "a", ";", "fi")
	case 2:
		toks = append(append([]string{"{"}, toks...), ";", "}")
	case 3:
		toks = append(append([]string{"for", "a", "in", "a", ";", "do"}, toks...), ";", "done")
	}
	folded := joinTokens(toks)
	start := 0
	var unf []string
	if wrap == 3 {
		// for NAME in WORDS: never command position
		unf = append(unf, toks[:6]...)
		start = 6
	}
	rest, _ := unfold(toks[start:], tbl, nil, true)
	unf = append(unf, rest...)
	unfolded := joinTokens(unf)
	nd.Observe("a='" + tbl.a + "' b='" + tbl.b + "' c='" + tbl.c + "' :: " + folded + " => " + unfolded)

	env := interp.NewExecEnv("sh")
	env.Aliases["a"] = tbl.a
	env.Aliases["b"] = tbl.b
	env.Aliases["c"] = tbl.c
	s1 := NewScanner([]rune(folded + "\n"))
	got, err1 := parseAllEnv(env, s1)
	s2 := NewScanner([]rune(unfolded + "\n"))
	want, err2 := parseAllEnv(nil, s2)
	if err2 != nil {
		nd.Cover("unfolded-ill-formed")
		nd.Assert(err1 != nil, "a program whose unfolding is ill-formed is rejected")
		return
	}
	nd.Cover("unfolded-well-formed")
	nd.Assert(err1 == nil, "a program whose unfolding is well-formed is accepted")
	if err1 != nil {
		return
	}
	nd.Assert(SkelEq(got) == SkelEq(want), "parsing with aliases equals parsing the unfolded text")
}

// C17_Closer: an alias whose value is a whole compound command and ends in a
// blank makes the following word examined too; that word may be an alias for
// the redirections of the compound command. Textual replacement is written out
// by hand (no other alias is involved).
func C17_Closer() {
	va := []string{"{ z ; } ", "if z ; then w ; fi ", "( z ) ", "while z ; do w ; done ", "case z in w) ;; esac ", "{ z ; }"}[nd.Choice(6)]
	vb := []string{">f", ">f 2>&1", "<g >f", "2>>f"}[nd.Choice(4)]
	pre := []string{"", "x ; ", "x | ", "! "}[nd.Choice(4)]
	post := []string{"", " ; y", " | y", " && y"}[nd.Choice(4)]
	folded := pre + "a b" + post
	unfolded := pre + va + "b" + post
	if va[len(va)-1] == ' ' {
		unfolded = pre + va + vb + post
	}
	nd.Observe("a='" + va + "' b='" + vb + "' :: " + folded + " => " + unfolded)
	env := interp.NewExecEnv("sh")
	env.Aliases["a"] = va
	env.Aliases["b"] = vb
	got, err1 := parseAllEnv(env, NewScanner([]rune(folded+"\n")))
	want, err2 := parseAllEnv(nil, NewScanner([]rune(unfolded+"\n")))
	if err2 != nil {
		nd.Cover("unfolded-ill-formed")
		nd.Assert(err1 != nil, "a program whose unfolding is ill-formed is rejected")
		return
	}
	nd.Cover("unfolded-well-formed")
	nd.Assert(err1 == nil, "a program whose unfolding is well-formed is accepted")
	if err1 != nil {
		return
	}
	nd.Assert(SkelEq(got) == SkelEq(want), "parsing with aliases equals parsing the unfolded text")
}
